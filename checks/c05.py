"""
C05 -- inter-packet response timing matches the selected bus speed.

DUT: luna.gateware.usb.usb2.packet.USBInterpacketTimer (real, standalone) in its three supported configurations
(60 MHz all-speed, 60 MHz fs_only, 12 MHz fs_only) with one or two attached InterpacketTimerInterfaces.
Stimulus: literal start strobes (either interface, single or held, restarts right before / at / after every threshold)
and speed changes.  Oracle: the threshold table is built from the property STATEMENT (bit times -> cycles of the
domain clock), not from the code's constants.
"""

import math
import hashlib

from amaranth import Elaboratable, Module

from dsim.kernel import make_bench, cached_bench, Violations

PROPERTY = "C05"
ENGINE = "usb2_wire"
CLOCK_HZ = 60e6
RULES = {
    "C05.offsets": "there is one registration offset d in {0,1} (and one rounding of the 6.5-bit deadline) such that every "
                   "tx_allowed / tx_timeout / rx_timeout strobe of the run occurs exactly threshold(speed)+d cycles after the most "
                   "recent start (or reset), once, and at no other time",
    "C05.interfaces_agree": "all attached interfaces see identical strobes",
}
PROBES = ["restart_before_allowed", "restart_between_allowed_and_deadline", "restart_between_deadline_and_rx_timeout",
          "restart_in_strobe_cycle", "ran_to_rx_timeout", "start_from_second_interface", "both_interfaces_start_together",
          "held_start", "speed_change_at_start", "speed_change_while_idle", "speed_high", "speed_full", "speed_low",
          "strobes_after_reset_checked"]
META = {
    "components_real": ["luna.gateware.usb.usb2.packet.USBInterpacketTimer", "InterpacketTimerInterface"],
    "components_stubbed": ["timer users: literal start strobes / speed pin from the scenario"],
    "assumptions": ["speed changes only in a cycle with a start strobe (that one cycle is not checked) or when every threshold of the "
                    "previous measurement has long passed (> 700 cycles since the last start)",
                    "fs_only configurations are driven at FULL speed only (as the statement says)",
                    "6.5 bit times that are not a whole number of cycles may be rounded down or up, consistently within a run",
                    "after reset the counter may behave as if started in cycle -2, -1 or 0 (the kernel clocks the design once before cycle 0)"],
    "rule": "6-40 start operations per run with waits biased to every threshold of the current speed +-2, interface choice, held "
            "starts, speed set drawn per run (single speed / pairs / all three)",
}
TIERS = {"quick": {"runs": 4000, "wall": 70}, "thorough": {"runs": 60000, "wall": 900}}

SPEED_NAME = {0: "HIGH", 1: "FULL", 2: "LOW"}


def spec_table(clock_hz):
    """ {speed: (allowed, (deadline candidates), rx_timeout)} in cycles of the domain clock, from the statement:
        allowed = 1 cycle (HS, 60 MHz) / 2 bit times (FS) / 2 low-speed bit times (LS); deadline = 6.5 bit times, 24 cycles at HS;
        receive timeout = 16 bit times (FS/LS), 736 bit times (HS).  FS = 12 Mbit/s, LS = 1.5 Mbit/s, HS = 480 Mbit/s. """
    fs = clock_hz / 12e6          # cycles per full-speed bit
    ls = clock_hz / 1.5e6
    hs = clock_hz / 480e6
    def both(x):
        return (math.floor(x), math.ceil(x))
    table = {1: (round(2 * fs), both(6.5 * fs), round(16 * fs))}
    if clock_hz == 60e6:
        table[0] = (1, (24, 24), round(736 * hs))
        table[2] = (round(2 * ls), both(6.5 * ls), round(16 * ls))
    return table


def gen(rng, tier, index):
    config = rng.choice(["60", "60", "60", "60fs", "12fs"])
    n_if = rng.choice([1, 2, 2])
    if config == "60":
        speeds = rng.choice([[1], [0], [2], [0, 1], [0, 1], [1, 2], [0, 1, 2], [0, 1, 2]])
    else:
        speeds = [1]
    table = spec_table(12e6 if config == "12fs" else 60e6)
    speed = rng.choice(speeds)
    cfg = {"config": config, "n_if": n_if, "speed0": speed}
    ops = []
    n = rng.randint(6, 24 if tier == "quick" else 40)
    first = True
    for _ in range(n):
        allowed, deadline, rxt = table[speed]
        r = rng.random()
        if first:
            wait = rng.choice([0, 1, 3, allowed + 1, deadline[1] + 3, rxt + 5, rxt + 60])
            first = False
        elif r < 0.22:
            wait = max(0, allowed + rng.randint(-2, 2))
        elif r < 0.44:
            wait = max(0, deadline[0] + rng.randint(-2, 3))
        elif r < 0.64:
            wait = max(0, rxt + rng.randint(-2, 3))
        elif r < 0.80:
            wait = rng.randint(0, rxt + 10)
        elif r < 0.90:
            wait = rng.randint(0, 6)
        else:
            wait = rxt + rng.randint(4, 80)
        op = {"wait": wait, "start": rng.choice([[1, 0]] * 3 + [[0, 1]] * 2 + [[1, 1]]) if n_if == 2 else [1, 0],
              "hold": rng.choice([1, 1, 1, 1, 2, 3])}
        if len(speeds) > 1 and rng.random() < 0.3:
            new = rng.choice([s for s in speeds if s != speed])
            if rng.random() < 0.3:
                # change while idle: first let every threshold pass, change the speed, idle again, then start
                op["idle_speed_change"] = {"before": 705 + rng.randint(0, 20), "speed": new, "after": rng.randint(1, 700)}
            else:
                op["speed"] = new
            speed = new
        ops.append(op)
    # let the last measurement run out
    ops.append({"wait": table[speed][2] + rng.randint(3, 30), "start": [0, 0], "hold": 1})
    return {"engine": ENGINE, "config": cfg, "ops": ops}


class _Timer(Elaboratable):
    def __init__(self, config, n_if):
        from luna.gateware.usb.usb2.packet import USBInterpacketTimer, InterpacketTimerInterface
        if config == "60":
            self.timer = USBInterpacketTimer(domain_clock=60e6, fs_only=False)
        elif config == "60fs":
            self.timer = USBInterpacketTimer(domain_clock=60e6, fs_only=True)
        else:
            self.timer = USBInterpacketTimer(domain_clock=12e6, fs_only=True)
        self.ifaces = [InterpacketTimerInterface() for _ in range(n_if)]
        for i in self.ifaces:
            self.timer.add_interface(i)

    def elaborate(self, platform):
        m = Module()
        m.submodules.timer = self.timer
        return m


def _bench(config, n_if):
    def factory():
        dut = _Timer(config, n_if)
        ins = {"speed": dut.timer.speed}
        outs = {}
        for k, i in enumerate(dut.ifaces):
            ins[f"start{k}"] = i.start
            outs[f"allowed{k}"] = i.tx_allowed
            outs[f"deadline{k}"] = i.tx_timeout
            outs[f"rxt{k}"] = i.rx_timeout
        return make_bench(dut, clocks={"usb": 1 / 60e6}, main="usb", ins=ins, outs=outs)
    return cached_bench(("c05", config, n_if), factory)


class _Player:
    def __init__(self, wave):
        self.wave = wave
        self.samples = []

    def drive(self, t):
        return self.wave[t] if t < len(self.wave) else self.wave[-1]

    def observe(self, t, o):
        self.samples.append(o)
        return t >= len(self.wave) - 1


def _render(cfg, ops):
    n_if = cfg["n_if"]
    speed = cfg["speed0"]
    wave = []
    unchecked = set()          # cycles in which the speed changes together with a start
    idle_changes = 0

    def emit(starts):
        d = {"speed": speed, "start0": starts[0]}
        if n_if == 2:
            d["start1"] = starts[1]
        wave.append(d)

    for op in ops:
        ic = op.get("idle_speed_change")
        if ic:
            for _ in range(ic["before"]):
                emit([0, 0])
            speed = ic["speed"]
            idle_changes += 1
            for _ in range(ic["after"]):
                emit([0, 0])
        for _ in range(op["wait"]):
            emit([0, 0])
        if any(op["start"]):
            if "speed" in op and op["speed"] != speed:
                speed = op["speed"]
                unchecked.add(len(wave))
            for _ in range(op["hold"]):
                emit(op["start"])
    emit([0, 0])
    emit([0, 0])
    return wave, unchecked, idle_changes


def run(scn):
    cfg = scn["config"]
    ops = scn["ops"]
    config, n_if = cfg["config"], cfg["n_if"]
    if config != "60" and (cfg["speed0"] != 1 or any(op.get("speed", 1) != 1 or "idle_speed_change" in op for op in ops)):
        raise RuntimeError("fs_only configurations are only driven at FULL speed")
    bench = _bench(config, n_if)
    table = spec_table(12e6 if config == "12fs" else 60e6)
    wave, unchecked, idle_changes = _render(cfg, ops)
    player = _Player(wave)
    log = bench.run([player], max_cycles=len(wave) + 2, init=wave[0])
    S = player.samples
    if len(S) < len(wave):
        raise RuntimeError("waveform was not played completely")
    viol = Violations()
    probes = {p: 0 for p in PROBES}
    probes["speed_change_while_idle"] += idle_changes
    probes["speed_change_at_start"] += len(unchecked)

    # ---- interfaces agree ----
    if n_if == 2:
        for t, o in enumerate(S):
            if (o["allowed0"], o["deadline0"], o["rxt0"]) != (o["allowed1"], o["deadline1"], o["rxt1"]):
                viol.add("C05.interfaces_agree", t, f"interface 0 sees {(o['allowed0'], o['deadline0'], o['rxt0'])}, interface 1 sees "
                         f"{(o['allowed1'], o['deadline1'], o['rxt1'])}", config=config)
                break

    # ---- last start before each cycle ----
    starts = [bool(w["start0"] or w.get("start1", 0)) for w in wave]
    kinds = ("allowed", "deadline", "rxt")
    kind_name = {"allowed": "tx_allowed", "deadline": "tx_timeout", "rxt": "rx_timeout"}

    def first_mismatch(delta, rnd, r0):
        last = r0                                  # virtual start modelling reset
        for t in range(len(wave)):
            sp = wave[t]["speed"]
            if t not in unchecked:
                a, d, r = table[sp]
                elapsed = t - last
                exp = (elapsed == a + delta, elapsed == d[rnd] + delta, elapsed == r + delta)
                o = S[t]
                obs = (o["allowed0"], o["deadline0"], o["rxt0"])
                for k in range(3):
                    if bool(obs[k]) != exp[k]:
                        thr = (a, d[rnd], r)[k]
                        return (t, kinds[k], sp, "spurious" if obs[k] else "missing", elapsed, thr, last)
            if starts[t]:
                last = t
        return None

    best = None
    ok = False
    for delta in (1, 0):
        for rnd in (0, 1):
            for r0 in (-2, -1, 0):
                mm = first_mismatch(delta, rnd, r0)
                if mm is None:
                    ok = True
                    break
                if best is None or mm[0] > best[0][0]:
                    best = (mm, delta, rnd, r0)
            if ok:
                break
        if ok:
            break
    if not ok:
        (t, kind, sp, problem, elapsed, thr, last), delta, rnd, r0 = best
        since = f"reset (virtual start in cycle {last})" if last < 0 or not any(starts[:t]) else f"the start in cycle {last}"
        viol.add("C05.offsets", t, f"{config} speed {SPEED_NAME[sp]}: {kind_name[kind]} {problem} in cycle {t}, {elapsed} cycles after {since}; the statement puts it at "
                 f"{thr} cycles (+ one registration offset in {{0,1}}, best fit {delta}); no single offset explains all strobes of the run",
                 config=config, speed=SPEED_NAME[sp], strobe=kind_name[kind], problem=problem)

    # ---- probes / coverage classes ----
    classes = set()
    last = None
    for t in range(len(wave)):
        sp = wave[t]["speed"]
        if starts[t] and not (t > 0 and starts[t - 1]):
            probes["speed_" + SPEED_NAME[sp].lower()] += 1
            if wave[t].get("start1"):
                probes["both_interfaces_start_together" if wave[t]["start0"] else "start_from_second_interface"] += 1
            if t + 1 < len(wave) and starts[t + 1]:
                probes["held_start"] += 1
            if last is not None:
                a, d, r = table[wave[t - 1]["speed"] if t else sp]
                e = t - last
                if e <= a:
                    probes["restart_before_allowed"] += 1
                    classes.add((sp, "pre_allowed"))
                elif e <= d[0]:
                    probes["restart_between_allowed_and_deadline"] += 1
                    classes.add((sp, "pre_deadline"))
                elif e <= r:
                    probes["restart_between_deadline_and_rx_timeout"] += 1
                    classes.add((sp, "pre_rxt"))
                else:
                    probes["ran_to_rx_timeout"] += 1
                    classes.add((sp, "full"))
                o = S[t]
                if o["allowed0"] or o["deadline0"] or o["rxt0"]:
                    probes["restart_in_strobe_cycle"] += 1
                    classes.add((sp, "in_strobe"))
            else:
                if any(S[u]["allowed0"] or S[u]["deadline0"] or S[u]["rxt0"] for u in range(t)):
                    probes["strobes_after_reset_checked"] += 1
        if starts[t]:
            last = t
    faults = {"restart_mid_measurement": probes["restart_before_allowed"] + probes["restart_between_allowed_and_deadline"]
              + probes["restart_between_deadline_and_rx_timeout"],
              "speed_change": idle_changes + len(unchecked)}
    sig = hashlib.blake2b(repr((config, n_if, sorted(classes))).encode(), digest_size=8).hexdigest()
    return {"violations": viol.items, "cycles": log.cycles, "faults": faults, "probes": probes, "sig": sig,
            "nontrivial": faults["restart_mid_measurement"] > 0, "digest": log.digest, "fsm": len(log.fsm_vectors)}


def shrink_candidates(scn):
    import copy
    for i, op in enumerate(scn["ops"]):
        if op.get("hold", 1) != 1 or op.get("start") == [1, 1]:
            cand = copy.deepcopy(scn)
            cand["ops"][i]["hold"] = 1
            if cand["ops"][i]["start"] == [1, 1]:
                cand["ops"][i]["start"] = [1, 0]
            yield cand
    if scn["config"]["n_if"] == 2 and all(not op["start"][1] for op in scn["ops"]):
        cand = copy.deepcopy(scn)
        cand["config"]["n_if"] = 1
        yield cand
