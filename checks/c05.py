"""
C05 -- inter-packet response timing matches the selected bus speed.

DUT: luna.gateware.usb.usb2.packet.USBInterpacketTimer (real, standalone) in its three supported configurations
(60 MHz all-speed, 60 MHz fs_only, 12 MHz fs_only) with one or two attached InterpacketTimerInterfaces.
Stimulus: literal start strobes (either interface, single or held, restarts right before / at / after every threshold)
and speed changes.  Oracle: the threshold table is built from the property STATEMENT (bit times -> cycles of the
domain clock), not from the code's constants.
"""

import math
import hashlib

from amaranth import Elaboratable, Module

from dsim.kernel import make_bench, cached_bench, Violations
from models.usb2_wire import gen_idle_data

PROPERTY = "C05"
ENGINE = "usb2_wire"
CLOCK_HZ = 60e6
RULES = {
    "C05.offsets": "there is one registration offset d in {0,1} (and one rounding of the 6.5-bit deadline) such that every "
                   "tx_allowed / tx_timeout / rx_timeout strobe of the run occurs exactly threshold(speed)+d cycles after the most "
                   "recent start (or reset), once, and at no other time",
    "C05.interfaces_agree": "all attached interfaces see identical strobes",
}
PROBES = ["restart_before_allowed", "restart_between_allowed_and_deadline", "restart_between_deadline_and_rx_timeout",
          "restart_in_strobe_cycle", "ran_to_rx_timeout", "start_from_second_interface", "both_interfaces_start_together",
          "held_start", "speed_change_at_start", "speed_change_while_idle", "speed_high", "speed_full", "speed_low",
          "strobes_after_reset_checked", "device_level_strobes_checked"]
META = {
    "components_real": ["luna.gateware.usb.usb2.packet.USBInterpacketTimer", "InterpacketTimerInterface",
                        "every 16th run: complete USBDevice (token detector timer + shared receiver timer as an endpoint sees them; "
                        "speed selected by the real USBResetSequencer after a restricted bus reset)"],
    "components_stubbed": ["timer users: literal start strobes / speed pin from the scenario"],
    "assumptions": ["speed changes only in a cycle with a start strobe (that one cycle is not checked) or when every threshold of the "
                    "previous measurement has long passed (> 700 cycles since the last start)",
                    "fs_only configurations are driven at FULL speed only (as the statement says)",
                    "6.5 bit times that are not a whole number of cycles may be rounded down or up, consistently within a run",
                    "after reset the counter may behave as if started in cycle -2, -1 or 0 (the kernel clocks the design once before cycle 0)"],
    "rule": "6-40 start operations per run with waits biased to every threshold of the current speed +-2, interface choice, held "
            "starts, speed set drawn per run (single speed / pairs / all three)",
}
TIERS = {"quick": {"runs": 3600, "wall": 80}, "thorough": {"runs": 60000, "wall": 900}}

SPEED_NAME = {0: "HIGH", 1: "FULL", 2: "LOW"}


def spec_table(clock_hz):
    """ {speed: (allowed, (deadline candidates), rx_timeout)} in cycles of the domain clock, from the statement:
        allowed = 1 cycle (HS, 60 MHz) / 2 bit times (FS) / 2 low-speed bit times (LS); deadline = 6.5 bit times, 24 cycles at HS;
        receive timeout = 16 bit times (FS/LS), 736 bit times (HS).  FS = 12 Mbit/s, LS = 1.5 Mbit/s, HS = 480 Mbit/s. """
    fs = clock_hz / 12e6          # cycles per full-speed bit
    ls = clock_hz / 1.5e6
    hs = clock_hz / 480e6
    def both(x):
        return (math.floor(x), math.ceil(x))
    table = {1: (round(2 * fs), both(6.5 * fs), round(16 * fs))}
    if clock_hz == 60e6:
        table[0] = (1, (24, 24), round(736 * hs))
        table[2] = (round(2 * ls), both(6.5 * ls), round(16 * ls))
    return table


DEVICE_EVERY = 16       # every 16th run (index % 16 == 7) measures the timers where endpoints see them, inside a complete USBDevice


def gen(rng, tier, index):
    if index % DEVICE_EVERY == 7:
        return _gen_device(rng, tier, index)
    return _gen_timer(rng, tier, index)


def _gen_device(rng, tier, index):
    """ Device-level run: OUT transactions (token + data packet) against a complete USBDevice; the `ready_for_response` strobes
        an endpoint is shown (token detector's private timer, receiver's shared timer) are timed against the end of the token /
        data packet.  V2 (60 MHz, ULPI timing) devices are strapped to full or to low speed from power-on (the reset sequencer
        selects low speed only then); V1 is the 12 MHz full-speed-only construction. """
    variant = rng.choice(["V1", "V2", "V2", "V2"])
    if index % (DEVICE_EVERY * 24) == 7:
        variant = "V2"
    cfg = {"dut": "device", "variant": variant, "byte_period": rng.choice([1, 1, 2, 5]) if variant == "V2" else 1,
           "pre": rng.choice([1, 1, 2, 4]), "post": rng.choice([0, 0, 1]),
           "speed": rng.choice(["full", "low", "low"]) if variant == "V2" else "full"}
    if variant == "V2" and index % (DEVICE_EVERY * 24) == 7:
        # high speed: the device is taken through a real reset + chirp handshake first (2 ms device chirp = 120 000 cycles)
        cfg["speed"] = "high"
    ops = []
    tog = 0
    for _ in range(rng.randint(4, 12)):
        if variant == "V2" and cfg["speed"] != "high" and rng.random() < 0.15:
            ops.append({"op": "reset", "se0": rng.choice([320, 400, 1000])})         # a bus reset keeps the strapped speed
            tog = 0
        n = rng.choice([0, 1, 2, 8, rng.randint(0, 16)])
        ops.append({"op": "out", "ep": rng.choice([1, 1, 2, 7]), "pid": f"DATA{tog}", "data": bytes(rng.getrandbits(8) for _ in range(n)).hex(),
                    "tok_gap": rng.choice([2, 2, 3, 5, 9]), "gap": rng.choice([100, 120, 200, 400])})
        tog ^= 1
    cfg["idle_data"] = gen_idle_data(rng)
    return {"engine": "usb2_device", "config": cfg, "ops": ops}


def _gen_timer(rng, tier, index):
    config = rng.choice(["60", "60", "60", "60fs", "12fs"])
    n_if = rng.choice([1, 2, 2])
    if config == "60":
        speeds = rng.choice([[1], [0], [2], [0, 1], [0, 1], [1, 2], [0, 1, 2], [0, 1, 2]])
    else:
        speeds = [1]
    table = spec_table(12e6 if config == "12fs" else 60e6)
    speed = rng.choice(speeds)
    cfg = {"config": config, "n_if": n_if, "speed0": speed}
    ops = []
    n = rng.randint(6, 24 if tier == "quick" else 40)
    first = True
    for _ in range(n):
        allowed, deadline, rxt = table[speed]
        r = rng.random()
        if first:
            wait = rng.choice([0, 1, 3, allowed + 1, deadline[1] + 3, rxt + 5, rxt + 60])
            first = False
        elif r < 0.22:
            wait = max(0, allowed + rng.randint(-2, 2))
        elif r < 0.44:
            wait = max(0, deadline[0] + rng.randint(-2, 3))
        elif r < 0.64:
            wait = max(0, rxt + rng.randint(-2, 3))
        elif r < 0.80:
            wait = rng.randint(0, rxt + 10)
        elif r < 0.90:
            wait = rng.randint(0, 6)
        else:
            wait = rxt + rng.randint(4, 80)
        op = {"wait": wait, "start": rng.choice([[1, 0]] * 3 + [[0, 1]] * 2 + [[1, 1]]) if n_if == 2 else [1, 0],
              "hold": rng.choice([1, 1, 1, 1, 2, 3])}
        if len(speeds) > 1 and rng.random() < 0.3:
            new = rng.choice([s for s in speeds if s != speed])
            if rng.random() < 0.3:
                # change while idle: first let every threshold pass, change the speed, idle again, then start
                op["idle_speed_change"] = {"before": 705 + rng.randint(0, 20), "speed": new, "after": rng.randint(1, 700)}
            else:
                op["speed"] = new
            speed = new
        ops.append(op)
    # let the last measurement run out
    ops.append({"wait": table[speed][2] + rng.randint(3, 30), "start": [0, 0], "hold": 1})
    return {"engine": ENGINE, "config": cfg, "ops": ops}


class _Timer(Elaboratable):
    def __init__(self, config, n_if):
        from luna.gateware.usb.usb2.packet import USBInterpacketTimer, InterpacketTimerInterface
        if config == "60":
            self.timer = USBInterpacketTimer(domain_clock=60e6, fs_only=False)
        elif config == "60fs":
            self.timer = USBInterpacketTimer(domain_clock=60e6, fs_only=True)
        else:
            self.timer = USBInterpacketTimer(domain_clock=12e6, fs_only=True)
        self.ifaces = [InterpacketTimerInterface() for _ in range(n_if)]
        for i in self.ifaces:
            self.timer.add_interface(i)

    def elaborate(self, platform):
        m = Module()
        m.submodules.timer = self.timer
        return m


def _bench(config, n_if):
    def factory():
        dut = _Timer(config, n_if)
        ins = {"speed": dut.timer.speed}
        outs = {}
        for k, i in enumerate(dut.ifaces):
            ins[f"start{k}"] = i.start
            outs[f"allowed{k}"] = i.tx_allowed
            outs[f"deadline{k}"] = i.tx_timeout
            outs[f"rxt{k}"] = i.rx_timeout
        return make_bench(dut, clocks={"usb": 1 / 60e6}, main="usb", ins=ins, outs=outs)
    return cached_bench(("c05", config, n_if), factory)


class _Player:
    def __init__(self, wave):
        self.wave = wave
        self.samples = []

    def drive(self, t):
        return self.wave[t] if t < len(self.wave) else self.wave[-1]

    def observe(self, t, o):
        self.samples.append(o)
        return t >= len(self.wave) - 1


def _render(cfg, ops):
    n_if = cfg["n_if"]
    speed = cfg["speed0"]
    wave = []
    unchecked = set()          # cycles in which the speed changes together with a start
    idle_changes = 0

    def emit(starts):
        d = {"speed": speed, "start0": starts[0]}
        if n_if == 2:
            d["start1"] = starts[1]
        wave.append(d)

    for op in ops:
        ic = op.get("idle_speed_change")
        if ic:
            for _ in range(ic["before"]):
                emit([0, 0])
            speed = ic["speed"]
            idle_changes += 1
            for _ in range(ic["after"]):
                emit([0, 0])
        for _ in range(op["wait"]):
            emit([0, 0])
        if any(op["start"]):
            if "speed" in op and op["speed"] != speed:
                speed = op["speed"]
                unchecked.add(len(wave))
            for _ in range(op["hold"]):
                emit(op["start"])
    emit([0, 0])
    emit([0, 0])
    return wave, unchecked, idle_changes


def _run_device(scn):
    from engines.usb2_device import device_bench, IDLE_INIT
    from models import usb2
    cfg, ops = scn["config"], scn["ops"]
    variant = cfg["variant"]
    clock = 60e6 if variant == "V2" else 12e6
    table = spec_table(clock)
    bench = device_bench({"variant": variant, "control": "standard", "spy": True,
                          "endpoints": [{"kind": "stream_out", "ep": 1, "mps": 64, "buffer": None}]})
    viol = Violations()
    probes = {p: 0 for p in PROBES}
    marks = []          # (kind, t_end, speed reported by the device at t_end)
    LINE_SE0 = 0

    def script(h):
        o = yield
        yield from h.idle(120)          # let the strobes the timers produce on their own after power-on pass
        if cfg["speed"] == "high":
            # bus reset, device chirp K, three host K-J pairs (plus one), then high-speed idle (SE0)
            h.set_pins(line_state=LINE_SE0)
            seen_chirp = False
            for _ in range(130000):
                yield
                if h.sample["tx_valid"]:
                    seen_chirp = True
                elif seen_chirp:
                    break
            else:
                raise RuntimeError("device never finished a chirp after a bus reset")
            yield from h.idle(30)
            for _ in range(4):
                h.set_pins(line_state=0b10)      # K
                yield from h.idle(170)
                h.set_pins(line_state=0b01)      # J
                yield from h.idle(170)
            h.set_pins(line_state=LINE_SE0)
            for _ in range(3000):
                yield
                if h.sample["speed"] == 0 and h.sample["op_mode"] == 0 and h.sample["term_select"] == 0:
                    break
            else:
                raise RuntimeError("device did not enter high-speed operation after a complete chirp handshake")
            yield from h.idle(150)
            del h.tx_packets[:]
        for op in ops:
            if op["op"] == "reset":
                h.set_pins(line_state=LINE_SE0)
                yield from h.idle(op["se0"])
                h.set_pins(line_state=line_idle)
                yield from h.idle(40)
                continue
            _, t_end = yield from h.send(usb2.token_packet("OUT", 0, op["ep"]), info="tok")
            marks.append(("tok", t_end, h.sample["speed"]))
            yield from h.idle(op["tok_gap"])
            _, t_end = yield from h.send(usb2.data_packet(op["pid"], bytes.fromhex(op["data"])), info="data")
            marks.append(("data", t_end, h.sample["speed"]))
            yield from h.idle(op["gap"])

    class Mon:
        def __init__(self):
            self.tok, self.rx, self.speed = [], [], []

        def observe(self, t, o):
            if o["spy_ready_for_response"]:
                self.tok.append(t)
            if o["spy_rx_ready_for_response"]:
                self.rx.append(t)
            return False

    low = cfg["speed"] == "low"
    high = cfg["speed"] == "high"
    line_idle = 0b10 if low else 0b01
    host = usb2.UTMIHost(script, idle_data=cfg.get("idle_data"), byte_period=cfg["byte_period"], pre=cfg["pre"], post=cfg["post"], line_idle=line_idle)
    mon = Mon()
    init = dict(IDLE_INIT)
    init.update(out1_ready=1, line_state=line_idle, full_speed_only=int(not low and not high), low_speed_only=int(low))
    cap = (140000 if high else 0) + 600 + sum(op.get("se0", 0) + 60 if op["op"] == "reset" else
                    op["tok_gap"] + op["gap"] + (len(op["data"]) // 2 + 8) * (cfg["byte_period"] + 1) + 2 * (cfg["pre"] + cfg["post"] + 4) for op in ops)
    log = bench.run([host, mon], cap, init=init)
    if not host._done:
        raise RuntimeError("host script did not finish within the cycle cap")
    # ---- oracle: one strobe per token / data packet, at end + allowed(speed reported by the device) + d, one d per kind ----
    offs = {"tok": set(), "data": set()}
    want_speed = 2 if low else (0 if high else 1)
    for kind, t_end, spd in marks:
        pulses = mon.tok if kind == "tok" else mon.rx
        if spd != want_speed:
            raise RuntimeError(f"device reports speed {spd}, strapped for {cfg['speed']}")
        if spd not in table:
            raise RuntimeError(f"device reports speed {spd} in a configuration that cannot select it")
        allowed = table[spd][0]
        nxt = [t for t in pulses if t >= t_end]
        lim = t_end + allowed + 8
        mine = [t for t in nxt if t <= lim]
        probes["speed_" + SPEED_NAME[spd].lower()] += 1
        probes["device_level_strobes_checked"] += 1
        if len(mine) != 1:
            viol.add("C05.offsets", t_end, f"device-level: {kind} packet ended (rx_active low) in cycle {t_end} at speed {SPEED_NAME[spd]}; "
                     f"expected one ready-for-response strobe {allowed} cycles later (+ a fixed registration offset), saw strobes at "
                     f"{[t - t_end for t in mine]} cycles after the end (next strobes: {[t - t_end for t in nxt[:3]]})",
                     config="device_" + variant, speed=SPEED_NAME[spd], what=kind + "_strobe_count")
            break
        offs[kind].add((mine[0] - t_end - allowed, SPEED_NAME[spd]))
    if not viol:
        for kind, st in offs.items():
            ds = sorted(set(d for d, _ in st))
            # token strobes come from the token detector's private timer, which nothing else starts: one fixed offset.  The
            # receiver's strobe comes from the timer it shares with the endpoints, which may legitimately restart it a cycle
            # or two after the packet (e.g. an OUT endpoint taking the data): there only the range of the offset is fixed.
            if (kind == "tok" and len(ds) > 1) or (ds and not (-1 <= ds[0] and ds[-1] <= 4)):
                viol.add("C05.offsets", 0, f"device-level: the {kind} ready-for-response strobe comes (allowed(speed) + d) cycles after the "
                         f"packet end with d = {sorted(st)}: not one fixed registration offset for every speed",
                         config="device_" + variant, speed="+".join(sorted(set(n for _, n in st))), what=kind + "_offset")
                break
    speeds_seen = sorted(set(spd for _, _, spd in marks))
    sig = hashlib.blake2b(repr(("device", variant, speeds_seen, sorted(log.fsm_vectors))).encode(), digest_size=8).hexdigest()
    return {"violations": viol.items, "cycles": log.cycles, "faults": {"bus_reset": sum(1 for op in ops if op["op"] == "reset")},
            "probes": probes, "sig": sig, "nontrivial": len(marks) >= 4, "digest": log.digest, "fsm": len(log.fsm_vectors)}


def run(scn):
    cfg = scn["config"]
    ops = scn["ops"]
    if cfg.get("dut") == "device":
        return _run_device(scn)
    config, n_if = cfg["config"], cfg["n_if"]
    if config != "60" and (cfg["speed0"] != 1 or any(op.get("speed", 1) != 1 or "idle_speed_change" in op for op in ops)):
        raise RuntimeError("fs_only configurations are only driven at FULL speed")
    bench = _bench(config, n_if)
    table = spec_table(12e6 if config == "12fs" else 60e6)
    wave, unchecked, idle_changes = _render(cfg, ops)
    player = _Player(wave)
    log = bench.run([player], max_cycles=len(wave) + 2, init=wave[0])
    S = player.samples
    if len(S) < len(wave):
        raise RuntimeError("waveform was not played completely")
    viol = Violations()
    probes = {p: 0 for p in PROBES}
    probes["speed_change_while_idle"] += idle_changes
    probes["speed_change_at_start"] += len(unchecked)

    # ---- interfaces agree ----
    if n_if == 2:
        for t, o in enumerate(S):
            if (o["allowed0"], o["deadline0"], o["rxt0"]) != (o["allowed1"], o["deadline1"], o["rxt1"]):
                viol.add("C05.interfaces_agree", t, f"interface 0 sees {(o['allowed0'], o['deadline0'], o['rxt0'])}, interface 1 sees "
                         f"{(o['allowed1'], o['deadline1'], o['rxt1'])}", config=config)
                break

    # ---- last start before each cycle ----
    starts = [bool(w["start0"] or w.get("start1", 0)) for w in wave]
    kinds = ("allowed", "deadline", "rxt")
    kind_name = {"allowed": "tx_allowed", "deadline": "tx_timeout", "rxt": "rx_timeout"}

    def first_mismatch(delta, rnd, r0):
        last = r0                                  # virtual start modelling reset
        for t in range(len(wave)):
            sp = wave[t]["speed"]
            if t not in unchecked:
                a, d, r = table[sp]
                elapsed = t - last
                exp = (elapsed == a + delta, elapsed == d[rnd] + delta, elapsed == r + delta)
                o = S[t]
                obs = (o["allowed0"], o["deadline0"], o["rxt0"])
                for k in range(3):
                    if bool(obs[k]) != exp[k]:
                        thr = (a, d[rnd], r)[k]
                        return (t, kinds[k], sp, "spurious" if obs[k] else "missing", elapsed, thr, last)
            if starts[t]:
                last = t
        return None

    best = None
    ok = False
    for delta in (1, 0):
        for rnd in (0, 1):
            for r0 in (-2, -1, 0):
                mm = first_mismatch(delta, rnd, r0)
                if mm is None:
                    ok = True
                    break
                if best is None or mm[0] > best[0][0]:
                    best = (mm, delta, rnd, r0)
            if ok:
                break
        if ok:
            break
    if not ok:
        (t, kind, sp, problem, elapsed, thr, last), delta, rnd, r0 = best
        since = f"reset (virtual start in cycle {last})" if last < 0 or not any(starts[:t]) else f"the start in cycle {last}"
        viol.add("C05.offsets", t, f"{config} speed {SPEED_NAME[sp]}: {kind_name[kind]} {problem} in cycle {t}, {elapsed} cycles after {since}; the statement puts it at "
                 f"{thr} cycles (+ one registration offset in {{0,1}}, best fit {delta}); no single offset explains all strobes of the run",
                 config=config, speed=SPEED_NAME[sp], strobe=kind_name[kind], problem=problem)

    # ---- probes / coverage classes ----
    classes = set()
    last = None
    for t in range(len(wave)):
        sp = wave[t]["speed"]
        if starts[t] and not (t > 0 and starts[t - 1]):
            probes["speed_" + SPEED_NAME[sp].lower()] += 1
            if wave[t].get("start1"):
                probes["both_interfaces_start_together" if wave[t]["start0"] else "start_from_second_interface"] += 1
            if t + 1 < len(wave) and starts[t + 1]:
                probes["held_start"] += 1
            if last is not None:
                a, d, r = table[wave[t - 1]["speed"] if t else sp]
                e = t - last
                if e <= a:
                    probes["restart_before_allowed"] += 1
                    classes.add((sp, "pre_allowed"))
                elif e <= d[0]:
                    probes["restart_between_allowed_and_deadline"] += 1
                    classes.add((sp, "pre_deadline"))
                elif e <= r:
                    probes["restart_between_deadline_and_rx_timeout"] += 1
                    classes.add((sp, "pre_rxt"))
                else:
                    probes["ran_to_rx_timeout"] += 1
                    classes.add((sp, "full"))
                o = S[t]
                if o["allowed0"] or o["deadline0"] or o["rxt0"]:
                    probes["restart_in_strobe_cycle"] += 1
                    classes.add((sp, "in_strobe"))
            else:
                if any(S[u]["allowed0"] or S[u]["deadline0"] or S[u]["rxt0"] for u in range(t)):
                    probes["strobes_after_reset_checked"] += 1
        if starts[t]:
            last = t
    faults = {"restart_mid_measurement": probes["restart_before_allowed"] + probes["restart_between_allowed_and_deadline"]
              + probes["restart_between_deadline_and_rx_timeout"],
              "speed_change": idle_changes + len(unchecked)}
    sig = hashlib.blake2b(repr((config, n_if, sorted(classes))).encode(), digest_size=8).hexdigest()
    return {"violations": viol.items, "cycles": log.cycles, "faults": faults, "probes": probes, "sig": sig,
            "nontrivial": faults["restart_mid_measurement"] > 0, "digest": log.digest, "fsm": len(log.fsm_vectors)}


def shrink_candidates(scn):
    import copy
    for i, op in enumerate(scn["ops"]):
        if op.get("hold", 1) != 1 or op.get("start") == [1, 1]:
            cand = copy.deepcopy(scn)
            cand["ops"][i]["hold"] = 1
            if cand["ops"][i]["start"] == [1, 1]:
                cand["ops"][i]["start"] = [1, 0]
            yield cand
    if scn["config"]["n_if"] == 2 and all(not op["start"][1] for op in scn["ops"]):
        cand = copy.deepcopy(scn)
        cand["config"]["n_if"] = 1
        yield cand
