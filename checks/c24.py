"""
C24 -- ULPI control registers always converge to the requested UTMI settings.

DUT: the real UTMITranslator.  The scenario is a history of control-input changes (one or several signals, touching
Function Control and/or OTG Control, including changes back to the old value a few cycles later), UTMI transmissions
requested around those changes, and PHY DIR take-overs triggered at chosen phases of a register write (command on the
bus, data phase, STP cycle) or while a TXCMD waits.  The PHY model keeps a register file that is updated only by
completed RegWrite cycles (command accepted, data accepted, STP).

Oracle:
  C24.write_value_matches_address  every completed write addresses Function Control (04h) or OTG Control (0Ah) and carries a
                                   value that was requested for *that* register at some instant between the previous
                                   completed write to it and this write's STP;
  C24.converges                    after the last change, with the bus idle for 300 cycles, both PHY registers equal the
                                   requested encodings (ULPI 1.1 bit layout, computed here);
  C24.no_mutual_block              a requested UTMI transmission starts within 400 consecutive cycles of DIR low.
"""

import hashlib

from dsim.kernel import Violations
from engines.ulpi import run_history, IDX, CTRL_RESET
from models.ulpi_phy import func_ctrl_value, otg_ctrl_value, FUNC_CTRL, OTG_CTRL, DEFAULT_REGS

PROPERTY = "C24"
ENGINE = "ulpi"
CLOCK_HZ = 60e6
RULES = {
    "C24.write_value_matches_address": "each completed RegWrite addresses 04h/0Ah and carries a value requested for that register during the write's lifetime",
    "C24.converges": "with no change pending and the bus idle (300 cycles), PHY Function Control / OTG Control equal the requested settings",
    "C24.no_mutual_block": "a pending UTMI transmission starts within 400 cycles once the PHY stops interfering",
}
PROBES = ["change_while_write_on_bus", "revert_while_write_on_bus", "change_while_tx_waiting", "change_same_cycle_as_tx_request",
          "change_in_completion_cycle", "dir_interrupt_regcmd", "dir_interrupt_regdata", "dir_interrupt_regstp",
          "writes_completed", "both_registers_pending", "tx_packets", "rst_variant"]
META = {
    "components_real": ["UTMITranslator", "ULPIControlTranslator", "ULPIRegisterWindow", "ULPITransmitTranslator", "ULPIRxEventDecoder"],
    "components_stubbed": ["ULPI PHY with register file (models.ulpi_phy.ULPIPhy)", "UTMI transmitter (engines.ulpi.UTMITx)",
                           "control inputs (literal changes)"],
    "assumptions": ["PHY obeys ULPI 1.1; a RegWrite is performed when STP follows the accepted data byte; when DIR rises in the "
                    "STP cycle the PHY may or may not perform it (per-run variant, both legal)",
                    "PHY resets with Function Control = 41h and OTG Control = 06h",
                    "the PHY does not assert DIR between accepting a TXCMD and STP",
                    "NXT accept delays <= 6 cycles, so 300 quiet cycles are ample for two register writes"],
    "rule": "6-16 ops: control changes (1-3 signals; reverts after 1-10 cycles), UTMI packets requested 0-3 cycles around a change, "
            "DIR take-overs triggered at regcmd/regdata/regstp/txcmd phases; per-run NXT delays and throttle",
}
TIERS = {"quick": {"runs": 4800, "wall": 70}, "thorough": {"runs": 24000, "wall": 900}}

FUNC_SIGS = ["xcvr_select", "term_select", "op_mode", "suspend"]
OTG_SIGS = ["id_pullup", "dp_pulldown", "dm_pulldown", "chrg_vbus", "dischrg_vbus", "use_external_vbus_indicator"]


def _val(rng, name):
    return rng.randrange(4) if name in ("xcvr_select", "op_mode") else rng.getrandbits(1)


def gen(rng, tier, index):
    fault_free = rng.random() < 0.15
    kn = {"revert": rng.random() < 0.6, "tx": rng.random() < 0.65, "dir": rng.random() < 0.6, "multi": rng.random() < 0.6}
    if fault_free:
        kn = {k: False for k in kn}
    rst = rng.random() < 0.02
    phy = {"nxt_delays": [rng.choice([0, 0, 1, 1, 2, 3, 6]) for _ in range(rng.randint(1, 4))],
           "tx_throttle": rng.choice([[1], [1], [1, 0], [1, 1, 0, 1]]), "nxt_in_stp": rng.getrandbits(1),
           "stp_dir_commits": bool(rng.getrandbits(1)), "patience": 60}
    ctrl = dict(CTRL_RESET)
    if rng.random() < 0.6:
        for nm in rng.sample(FUNC_SIGS + OTG_SIGS, rng.randint(1, 4)):
            ctrl[nm] = _val(rng, nm)
    cfg = {"rst": rst, "start_at": 59990 if rst else rng.choice([2, 2, 12, 30]), "tail": 300, "phy": phy, "ctrl": ctrl,
           "tx_gap": rng.choice([2, 3, 6])}
    ops = []
    cur = dict(ctrl)
    nops = rng.randint(6, 12 if tier == "quick" else 16)
    while len(ops) < nops:
        r = rng.random()
        wait = rng.choice([0, 0, 1, 1, 2, 3, 4, 6, 9, 15, 40])
        if fault_free:
            wait = rng.choice([40, 60])
        if r < 0.45:
            pool = FUNC_SIGS + OTG_SIGS if kn["multi"] else rng.choice([FUNC_SIGS, OTG_SIGS])
            names = rng.sample(pool, rng.randint(1, 3 if kn["multi"] else 1))
            new = {}
            for nm in names:
                v = _val(rng, nm)
                if v == cur[nm]:
                    v = (v + 1) % (4 if nm in ("xcvr_select", "op_mode") else 2)
                new[nm] = v
            old = {nm: cur[nm] for nm in new}
            ops.append({"op": "ctrl", "wait": wait, "set": new})
            cur.update(new)
            if kn["revert"] and rng.random() < 0.45:
                ops.append({"op": "ctrl", "wait": rng.randint(1, 10), "set": old, "revert": True})
                cur.update(old)
        elif r < 0.65 and kn["tx"]:
            n = rng.choice([1, 1, 2, 4, 9, 20])
            ops.append({"op": "tx", "wait": wait if rng.random() < 0.5 else rng.choice([0, 0, 1, 2]),
                        "data": bytes(rng.getrandbits(8) for _ in range(n)).hex()})
        elif r < 0.85 and kn["dir"]:
            status = rng.randrange(4) | (3 << 2)
            op = {"op": "rx", "wait": rng.choice([0, 0, 1, 2, 5]), "start": "none", "ta": rng.getrandbits(8), "status": status,
                  "pre": [rng.randrange(4) | (3 << 2) for _ in range(rng.randint(1, 4))]}
            if rng.random() < 0.4:
                n = rng.choice([1, 3, 6])
                op.update({"start": rng.choice(["nxt", "rxcmd"]), "pre": [status], "start_cmds": 2,
                           "data": bytes(rng.getrandbits(8) for _ in range(n)).hex(), "gaps": [rng.choice([0, 1])],
                           "mid": [status], "end": "rxcmd", "post": [status]})
            if rng.random() < 0.75:
                op["trigger"] = [rng.choice(["regcmd", "regcmd", "regdata", "regdata", "regstp", "regstp", "txcmd"]),
                                 rng.choice([0, 0, 1, 2, 3])]
            ops.append(op)
        else:
            ops.append({"op": "idle", "wait": rng.choice([3, 10, 25, 60])})
    return {"engine": ENGINE, "config": cfg, "ops": ops}


class _Blocked:
    """ C24.no_mutual_block: a requested transmission must start within 400 consecutive DIR-low cycles """

    def __init__(self, phy, utmi, director):
        self.phy, self.utmi, self.director = phy, utmi, director
        self.n = 0
        self.hit = None

    def observe(self, t, s):
        cur = self.utmi.cur
        if cur is not None and not cur["acc"] and self.phy.cur[0] == 0 and self.phy.state != "PLAY":
            self.n += 1
            if self.n > 400 and self.hit is None:
                self.hit = t
                self.director.stop_request = True
        else:
            self.n = 0
        return False


def _req_history(director):
    """ [(t, func_value, otg_value)] piecewise-constant requested encodings """
    return [(t, func_ctrl_value(c), otg_ctrl_value(c)) for t, c in director.ctrl_log]


def run(scn):
    mon = []

    def monitors(phy, utmi, director):
        mon.append(_Blocked(phy, utmi, director))
        return mon

    log, director, phy, utmi, trace = run_history(scn, monitors)
    blocked = mon[0]
    viol = Violations()
    probes = {p: 0 for p in PROBES}
    rows = trace.rows
    n = len(rows)
    req = _req_history(director)
    changes = [t for t, _ in director.ctrl_log[1:]]
    if scn["config"].get("rst"):
        probes["rst_variant"] += 1

    def requested_at(t):
        f, o = req[0][1], req[0][2]
        for tc, fv, ov in req:
            if tc <= t:
                f, o = fv, ov
        return {FUNC_CTRL: f, OTG_CTRL: o}

    def values_between(addr, t0, t1):
        k = 1 if addr == FUNC_CTRL else 2
        vals = set()
        last = None
        for e in req:
            if e[0] <= t0:
                last = e[k]
            elif e[0] <= t1:
                vals.add(e[k])
        if last is not None:
            vals.add(last)
        return vals

    # ---- history facts used for probes and violation shapes (black-box: pins and scenario only) ------------
    on_bus = [(w["t_first"], w["t_stp"]) for w in phy.reg_writes]
    tx_wait = [(p["t_valid"], (p["acc"][0] if p["acc"] else n)) for p in utmi.packets + ([utmi.cur] if utmi.cur else [])]
    done_cycles = set(w["t_stp"] + 1 for w in phy.reg_writes)
    revert_times = set()
    for (ti, i) in director.issued:
        if scn["ops"][i].get("revert"):
            revert_times.add(ti)
    f_change_in_flight = f_change_tx = f_same = f_done = False
    for tc in changes:
        if any(a <= tc <= b + 1 for a, b in on_bus):
            probes["change_while_write_on_bus"] += 1
            f_change_in_flight = True
            if tc in revert_times:
                probes["revert_while_write_on_bus"] += 1
        if any(a < tc <= b for a, b in tx_wait):
            probes["change_while_tx_waiting"] += 1
            f_change_tx = True
        if any(tc == a for a, b in tx_wait):
            probes["change_same_cycle_as_tx_request"] += 1
            f_same = True
        if tc in done_cycles:
            probes["change_in_completion_cycle"] += 1
            f_done = True
    for k in ("regdata", "regstp"):
        probes["dir_interrupt_" + k] = phy.fired.get("dir_interrupt_" + k, 0)
    probes["dir_interrupt_regcmd"] = sum(1 for t, st in phy.aborts if st == "CMD_WAIT" and rows[t - 1][IDX["data_o"]] >> 6 == 2)
    probes["writes_completed"] = len(phy.reg_writes)
    probes["tx_packets"] = len(utmi.packets)
    facts = {"change_in_flight": f_change_in_flight, "change_while_tx_waiting": f_change_tx or f_same,
             "dir_interrupted_write": bool(probes["dir_interrupt_regcmd"] or probes["dir_interrupt_regdata"] or probes["dir_interrupt_regstp"]),
             "tx_in_scenario": bool(tx_wait)}

    # ---- C24.write_value_matches_address -----------------------------------------------------------------
    last_write = {}
    regs = {FUNC_CTRL: DEFAULT_REGS[FUNC_CTRL], OTG_CTRL: DEFAULT_REGS[OTG_CTRL]}
    for w in phy.reg_writes:
        a, d = w["addr"], w["data"]
        if a not in (FUNC_CTRL, OTG_CTRL):
            viol.add("C24.write_value_matches_address", w["t_stp"], f"RegWrite to address {a:#04x} (data {d:#04x}) completed at cycle "
                     f"{w['t_stp']}: no control input maps to that register", kind="foreign_address", addr=a)
            break
        adm = values_between(a, last_write.get(a, 0), w["t_stp"])
        if d not in adm:
            other = OTG_CTRL if a == FUNC_CTRL else FUNC_CTRL
            viol.add("C24.write_value_matches_address", w["t_stp"], f"RegWrite {a:#04x} <- {d:#04x} completed at cycle {w['t_stp']} "
                     f"(command first on the bus at {w['t_first']}); values requested for that register since its previous write: "
                     f"{sorted(hex(v) for v in adm)}; the other register was requesting "
                     f"{sorted(hex(v) for v in values_between(other, w['t_first'] - 4, w['t_stp']))}", kind="wrong_value", addr=a,
                     value_of_other_register=d in values_between(other, 0, w["t_stp"]))
            break
        if not w["with_dir"]:
            # (a write whose STP cycle coincided with DIR rising is legitimately retried by the link with the value it
            #  latched earlier, so it does not start a new lifetime window)
            last_write[a] = w["t_stp"]
        regs[a] = d
        if sum(1 for x, v in requested_at(w["t_first"]).items() if regs_at(phy, x, w["t_first"]) != v) == 2:
            probes["both_registers_pending"] += 1

    # ---- C24.no_mutual_block ---------------------------------------------------------------------------------
    if blocked.hit is not None:
        cur = utmi.cur
        viol.add("C24.no_mutual_block", blocked.hit, f"UTMI transmission requested at cycle {cur['t_valid']} has not started after 400 "
                 f"consecutive cycles with DIR low (PHY registers {phy.regs[FUNC_CTRL]:#04x}/{phy.regs[OTG_CTRL]:#04x}, requested "
                 f"{director.requested()[FUNC_CTRL]:#04x}/{director.requested()[OTG_CTRL]:#04x})", blocked="tx",
                 write_pending=not director.regs_match())
    elif not director.finished:
        viol.add("C24.converges", log.cycles, f"the link never became quiescent after the last op (PHY state {phy.state}, "
                 f"{len(phy.reg_writes)} writes, UTMI idle={utmi.idle()})", kind="no_quiescence", reg="none", tx_in_scenario=facts["tx_in_scenario"])
    else:
        # ---- C24.converges (the run ended after 300 quiet cycles) ------------------------------------------
        want = director.requested()
        bad = [a for a in (FUNC_CTRL, OTG_CTRL) if phy.regs[a] != want[a]]
        if bad:
            names = {FUNC_CTRL: "func", OTG_CTRL: "otg"}
            viol.add("C24.converges", log.cycles, "after 300 quiet cycles: " + ", ".join(
                f"PHY reg {a:#04x} = {phy.regs[a]:#04x}, requested {want[a]:#04x}" for a in bad) +
                f" (last change at cycle {changes[-1] if changes else 0}, {len(phy.reg_writes)} writes completed; history facts {facts})",
                kind="stale_register", reg="both" if len(bad) == 2 else names[bad[0]], tx_in_scenario=facts["tx_in_scenario"])

    faults = {k: v for k, v in phy.fired.items() if v and k != "nxt_throttle"}
    for k in ("change_while_write_on_bus", "revert_while_write_on_bus", "change_while_tx_waiting", "change_same_cycle_as_tx_request",
              "change_in_completion_cycle"):
        if probes[k]:
            faults["control_" + k] = probes[k]
    cls = (scn["config"]["rst"], sorted(k for k, v in probes.items() if v))
    sig = hashlib.blake2b(repr((cls, sorted(log.fsm_vectors), sorted(faults))).encode(), digest_size=8).hexdigest()
    return {"violations": viol.items, "cycles": log.cycles, "faults": faults, "probes": probes, "sig": sig,
            "nontrivial": len(phy.reg_writes) > 0 and bool(faults), "digest": log.digest, "fsm": len(log.fsm_vectors)}


def regs_at(phy, addr, t):
    v = DEFAULT_REGS[addr]
    for w in phy.reg_writes:
        if w["t_stp"] <= t and w["addr"] == addr:
            v = w["data"]
    return v
