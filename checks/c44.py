"""
C44 -- idle handshake and U0 link timers meet their timing rules.

Two standalone DUTs (selected per scenario by config["dut"]), both real, domain "ss":

* "idle":   luna.gateware.usb.usb3.link.idle.IdleHandshakeHandler.  Stimulus: one literal row per cycle
            [enable, valid, data, ctrl].  Oracle (necessary condition, evaluated in every cycle in which
            idle_handshake_complete is high): the handshake has been enabled for at least 4 full cycles (16 symbols sent
            at 4 symbols per cycle) and, since it started, a run of at least eight consecutive *valid* logical-idle
            symbols (data 0x00, not a control symbol) has been received.  Words without `valid` carry no symbols: they
            neither extend nor break a run (the permissive reading).
* "timers": luna.gateware.usb.usb3.link.timers.LinkMaintenanceTimers(ss_clock_frequency=f) with f scaled so that
            1 ms = 200..2000 cycles and 10 us = 2..20 cycles.  Stimulus: enable level changes and received-command /
            received-packet / transmitted-command strobes at literal cycles; the environment optionally answers a
            scheduled keep-alive by a transmitted link command after a literal delay.
"""

import hashlib

from dsim.kernel import make_bench, cached_bench, Violations

PROPERTY = "C44"
ENGINE = "usb3_link"
CLOCK_HZ = 1e6
RULES = {
    "C44.idle_complete_only_after": "idle_handshake_complete only after >= 8 consecutive valid logical-idle symbols were "
                                    "received since the handshake started and >= 16 symbols (4 cycles) were sent",
    "C44.keepalive": "with no link command transmitted for the keep-alive interval (10 us, +2 cycles) while enabled, "
                     "schedule_keepalive has been raised; and it is raised again no later than 10 ms after the last time",
    "C44.recovery_exact": "transition_to_recovery is raised in the cycle (or the one after) in which 1 ms has passed in U0 "
                          "without a received link command or packet, and never earlier",
}
PROBES = ["idle_complete", "idle_invalid_zero_words", "idle_enable_restart", "idle_run_across_words", "idle_ctrl_zero_data",
          "recovery_fired", "rx_just_before_timeout", "rx_at_timeout_cycle", "disable_just_before_timeout",
          "keepalive_scheduled", "tx_just_before_keepalive", "keepalive_withheld_response", "horizon_beyond_10ms"]
META = {
    "components_real": ["luna.gateware.usb.usb3.link.idle.IdleHandshakeHandler",
                        "luna.gateware.usb.usb3.link.timers.LinkMaintenanceTimers"],
    "components_stubbed": ["physical layer receive stream (literal words)", "LTSSM (enable)",
                           "link-command / packet receivers and transmitter (literal strobes; optional keep-alive response)"],
    "assumptions": ["4 symbols are sent per enabled cycle (the block itself has no transmit port)",
                    "a word without valid carries no symbols",
                    "the idle handshake is not enabled in the first two cycles after reset (the bench plays two disabled "
                    "cycles with non-idle data first)",
                    "the keep-alive interval is the documented 10 us (U0LTimeout); the clock frequency is passed through the "
                    "public ss_clock_frequency parameter; a strobe that coincides with the timeout cycle may go either way"],
    "rule": "idle: 40-250 literal rows in biased phases (disabled, garbage, idle, zero-data-invalid, partial-idle words, "
            "control symbols); timers: f in 200 kHz..2 MHz, 3-25 events biased to land within +-2 cycles of the 1 ms / 10 us "
            "thresholds, keep-alive response delay per run (or withheld)",
}
TIERS = {"quick": {"runs": 12000, "wall": 70}, "thorough": {"runs": 30000, "wall": 900}}

FREQS = [200000, 200000, 250000, 300000, 500000, 500000, 700000, 1000000, 1250000, 2000000]


# ======================================================================================================
# generation
# ======================================================================================================
def _gen_idle(rng, tier):
    n = rng.randint(40, 250 if tier == "quick" else 800)
    invalid_zero = rng.random() < 0.6           # fault kind: words with data 0 / ctrl 0 but valid low
    rows = []
    enable = 0
    while len(rows) < n:
        phase = rng.choice(["off", "garbage", "idle", "gapzero", "partial", "ctrl", "mixed", "short_idle"])
        ln = rng.randint(1, 9)
        if phase == "off":
            enable = 0
            ln = rng.randint(1, 3)
        elif rng.random() < 0.5:
            enable = 1
        for _ in range(ln):
            valid, data, ctrl = 1, 0, 0
            if phase in ("off", "garbage"):
                data, ctrl = rng.getrandbits(32), rng.choice([0, 0, 0, rng.getrandbits(4)])
                valid = int(rng.random() < 0.8)
            elif phase == "idle":
                valid = 1 if not invalid_zero else int(rng.random() < 0.85)
            elif phase == "short_idle":
                data = 0 if rng.random() < 0.5 else rng.getrandbits(32) | 1
            elif phase == "gapzero":
                valid = 0 if invalid_zero else 1
                if not invalid_zero:
                    data = rng.getrandbits(32) | 0x100
            elif phase == "partial":
                keep = rng.choice([0x000000FF, 0x0000FFFF, 0x00FFFFFF, 0xFF000000, 0xFFFF0000, 0xFFFFFF00, 0x00FFFF00])
                data = (rng.getrandbits(32) | 0x01010101) & keep
            elif phase == "ctrl":
                data, ctrl = 0, rng.choice([1, 2, 4, 8, 15])
            else:
                r = rng.random()
                if r < 0.4:
                    pass
                elif r < 0.6:
                    valid = 0 if invalid_zero else 1
                    data = 0 if invalid_zero else rng.getrandbits(32) | 1
                else:
                    data = rng.getrandbits(32)
            rows.append([enable, valid, data, ctrl])
    return {"engine": ENGINE, "config": {"dut": "idle"}, "ops": rows[:n]}


def _gen_timers(rng, tier):
    f = rng.choice(FREQS)
    R = f // 1000
    K = (f * 10 + 999999) // 1000000
    long_run = rng.random() < (0.12 if f <= 300000 else 0.0)
    horizon = R * rng.choice([2, 3, 4, 6]) if not long_run else R * 10 + R * rng.choice([1, 2, 3])
    respond = rng.choice([None, None, [0], [1], [2], [0, 1, 3], [K], [rng.randint(0, 2 * K) for _ in range(4)]])
    if long_run:
        respond = None
    ops = []
    near = lambda base: max(1, base + rng.choice([-3, -2, -1, -1, 0, 0, 1, 1, 2, 5]))
    # enable schedule
    t = rng.choice([0, 0, 1, 3, rng.randint(0, 40)])
    ops.append({"at": t, "ev": "enable"})
    if not long_run and rng.random() < 0.5:
        for _ in range(rng.randint(1, 2)):
            t += rng.choice([near(R), near(R), rng.randint(1, 2 * R), near(K)])
            ops.append({"at": t, "ev": "disable"})
            t += rng.choice([1, 1, 2, rng.randint(1, 30)])
            ops.append({"at": t, "ev": "enable"})
    # receive strobes
    if rng.random() < 0.85:
        t = rng.randint(0, R)
        for _ in range(rng.randint(1, 8)):
            ops.append({"at": t, "ev": rng.choice(["rx_cmd", "rx_pkt"])})
            t += rng.choice([near(R), near(R), near(R), rng.randint(1, R), rng.randint(1, 10), R + rng.randint(3, R)])
            if t > horizon:
                break
    # transmit strobes
    if rng.random() < 0.7 and not long_run:
        t = rng.randint(0, 3 * K)
        for _ in range(rng.randint(1, 10)):
            ops.append({"at": t, "ev": "tx_cmd"})
            t += rng.choice([near(K), near(K), rng.randint(1, 3 * K + 3), rng.randint(1, R)])
            if t > horizon:
                break
    ops.sort(key=lambda o: (o["at"], o["ev"]))
    return {"engine": ENGINE, "config": {"dut": "timers", "f": f, "horizon": horizon, "respond": respond}, "ops": ops}


def gen(rng, tier, index):
    if rng.random() < 0.5:
        return _gen_idle(rng, tier)
    return _gen_timers(rng, tier)


# ======================================================================================================
# idle handshake
# ======================================================================================================
def _idle_bench():
    from luna.gateware.usb.usb3.link.idle import IdleHandshakeHandler

    def factory():
        dut = IdleHandshakeHandler()
        ins = {"enable": dut.enable, "valid": dut.sink.valid, "data": dut.sink.data, "ctrl": dut.sink.ctrl}
        outs = {"complete": dut.idle_handshake_complete}
        return make_bench(dut, clocks={"ss": 1e-6}, main="ss", ins=ins, outs=outs)
    return cached_bench(("c44", "idle"), factory)


PREAMBLE = [[0, 1, 0xFFFFFFFF, 0], [0, 1, 0xFFFFFFFF, 0]]     # two disabled cycles with non-idle data after reset


class _IdleActor:
    def __init__(self, scn, viol, probes):
        self.rows = PREAMBLE + scn["ops"]
        self.viol, self.probes = viol, probes
        self.start = None          # first cycle of the current enable stretch (None while disabled)
        self.prev_start = None     # start of the stretch that ended in the previous cycle
        self.run = 0               # current run of consecutive valid logical-idle symbols (symbol granularity)
        self.good_since_start = False   # a run >= 8 has ended/extended at a cycle >= start
        self.dead = False
        self.classes = set()
        self.stretches = 0

    def drive(self, t):
        if t < len(self.rows):
            e, v, d, c = self.rows[t]
            return {"enable": e, "valid": v, "data": d, "ctrl": c}
        return {"enable": 0, "valid": 0}

    def observe(self, t, o):
        if self.dead:
            return True
        if t >= len(self.rows):
            return True
        e, v, d, c = self.rows[t]
        pr = self.probes
        # ---- enable stretch bookkeeping --------------------------------------------------------------
        ended_prev = None
        if e:
            if self.start is None:
                self.start = t
                self.good_since_start = False
                self.stretches += 1
                if self.stretches > 1:
                    pr["idle_enable_restart"] += 1
        else:
            if self.start is not None:
                ended_prev = (self.start, self.good_since_start)
            self.start = None
        # ---- received symbols of this cycle ----------------------------------------------------------
        if v:
            words_in_run = 0
            for i in range(4):
                if ((d >> (8 * i)) & 0xFF) == 0 and not ((c >> i) & 1):
                    self.run += 1
                    if self.run >= 8 and self.start is not None:
                        if not self.good_since_start and i != 3:
                            pr["idle_run_across_words"] += 1
                        self.good_since_start = True
                else:
                    self.run = 0
            if d == 0 and c:
                pr["idle_ctrl_zero_data"] += 1
        elif d == 0 and c == 0:
            pr["idle_invalid_zero_words"] += 1
        # ---- the necessary condition -----------------------------------------------------------------
        if o["complete"]:
            pr["idle_complete"] += 1
            if self.start is not None:
                start, good = self.start, self.good_since_start
            elif ended_prev is not None:
                start, good = ended_prev            # tolerated: a registered output one cycle after enable fell
            else:
                start, good = None, False
            self.classes.add(("complete", start is not None, good))
            if start is None:
                return self._fail(t, "idle_handshake_complete high although the handshake is not enabled", why="not_enabled")
            if t - start < 4:
                return self._fail(t, f"idle_handshake_complete high {t - start} cycle(s) after enable rose in cycle {start}: "
                                     f"fewer than 16 symbols can have been sent", why="sent_too_few", cycles_enabled=t - start)
            if not good:
                zeros = sum(1 for r in self.rows[max(0, start - 1):t + 1] if not r[1] and r[2] == 0 and r[3] == 0)
                return self._fail(t, f"idle_handshake_complete high, but since enable rose in cycle {start} no run of 8 "
                                     f"consecutive valid logical-idle symbols was received (longest current run {self.run}; "
                                     f"{zeros} zero-data words without valid in that span); cycle numbers include the 2-cycle "
                                     f"preamble",
                                  why="no_valid_idle_run", invalid_zero_words_seen=bool(zeros))
        self.classes.add((e, v, d == 0, c == 0, min(self.run, 8) // 4))
        return False

    def _fail(self, t, msg, **shape):
        self.viol.add("C44.idle_complete_only_after", t, msg, dut="idle", **shape)
        self.dead = True
        return True


def _run_idle(scn):
    bench = _idle_bench()
    viol = Violations()
    probes = {p: 0 for p in PROBES}
    actor = _IdleActor(scn, viol, probes)
    log = bench.run([actor], max_cycles=len(scn["ops"]) + len(PREAMBLE) + 2)
    sig = hashlib.blake2b(repr(("idle", sorted(map(repr, actor.classes)))).encode(), digest_size=8).hexdigest()
    faults = {"invalid_word_gap": probes["idle_invalid_zero_words"], "enable_edge": probes["idle_enable_restart"],
              "control_symbol": probes["idle_ctrl_zero_data"]}
    return {"violations": viol.items, "cycles": log.cycles, "faults": faults, "probes": probes, "sig": sig,
            "nontrivial": probes["idle_complete"] > 0 or probes["idle_invalid_zero_words"] > 0,
            "digest": log.digest, "fsm": len(log.fsm_vectors)}


# ======================================================================================================
# link maintenance timers
# ======================================================================================================
def _timers_bench(f):
    from luna.gateware.usb.usb3.link.timers import LinkMaintenanceTimers

    def factory():
        dut = LinkMaintenanceTimers(ss_clock_frequency=float(f))
        ins = {"enable": dut.enable, "rx_cmd": dut.link_command_received, "rx_pkt": dut.packet_received,
               "tx_cmd": dut.link_command_transmitted}
        outs = {"keepalive": dut.schedule_keepalive, "recovery": dut.transition_to_recovery}
        return make_bench(dut, clocks={"ss": 1 / f}, main="ss", ins=ins, outs=outs)
    return cached_bench(("c44", "timers", f), factory)


class _TimersActor:
    def __init__(self, scn, viol, probes):
        cfg = scn["config"]
        self.f = cfg["f"]
        self.R = self.f // 1000                                 # 1 ms in cycles (f is a multiple of 1 kHz)
        self.K = (self.f * 10 + 999999) // 1000000              # 10 us in cycles, rounded up
        self.TEN_MS = self.f // 100
        self.horizon = cfg["horizon"]
        self.respond = cfg.get("respond")
        self.viol, self.probes = viol, probes
        self.events = {}
        for op in scn["ops"]:
            self.events.setdefault(op["at"], []).append(op["ev"])
        self.enable = 0
        self.resp_at = {}          # cycle -> True: keep-alive responses scheduled by the environment
        self.n_resp = 0
        self.cur = None
        # oracle state
        self.c = 0                 # consecutive enabled cycles without reception, up to and including the current
        self.rec_fired = False
        self.rec_due = None
        self.k = 0                 # consecutive enabled cycles without a transmitted link command
        self.ka_seen = False       # a keep-alive was scheduled since k was last reset
        self.since_ka = 0          # enabled cycles since the last schedule_keepalive (or since k was reset)
        self.dead = False
        self.classes = set()

    def drive(self, t):
        ev = self.events.get(t, ())
        if "enable" in ev:
            self.enable = 1
        if "disable" in ev:
            self.enable = 0
        tx = int("tx_cmd" in ev or t in self.resp_at)
        self.cur = (self.enable, int("rx_cmd" in ev), int("rx_pkt" in ev), tx)
        return {"enable": self.cur[0], "rx_cmd": self.cur[1], "rx_pkt": self.cur[2], "tx_cmd": tx}

    def _fail(self, rule, t, msg, **shape):
        self.viol.add(rule, t, msg + f" [ss_clock_frequency={self.f}]", dut="timers", **shape)
        self.dead = True
        return True

    def observe(self, t, o):
        if self.dead:
            return True
        en, rxc, rxp, tx = self.cur
        pr = self.probes
        R, K = self.R, self.K
        rx = rxc or rxp
        # ---------------- recovery --------------------------------------------------------------------
        would_be = self.c + 1                       # the count if nothing happens in this cycle
        if o["recovery"]:
            pr["recovery_fired"] += 1
            if would_be < R and not self.rec_fired:
                return self._fail("C44.recovery_exact", t,
                                  f"transition_to_recovery after only {would_be} cycle(s) in U0 without a received command/"
                                  f"packet; 1 ms is {R} cycles", kind="early", cycles_short=min(R - would_be, 9))
            if would_be >= R:
                self.rec_fired = True
                self.rec_due = None
        if self.rec_due is not None and t >= self.rec_due and not self.rec_fired and en and not rx:
            return self._fail("C44.recovery_exact", t,
                              f"no transition_to_recovery in cycles {self.rec_due - 1}..{self.rec_due} although {R} cycles (1 ms) "
                              f"passed in U0 without a received command/packet", kind="late_or_missing")
        if not en or rx:
            if en and rx and would_be == R:
                pr["rx_at_timeout_cycle"] += 1
            if en and rx and R - 3 <= would_be < R:
                pr["rx_just_before_timeout"] += 1
            if not en and R - 3 <= would_be < R and self.c:
                pr["disable_just_before_timeout"] += 1
            self.c = 0
            self.rec_fired = False
            self.rec_due = None
        else:
            self.c = would_be
            if self.c == R and not self.rec_fired:
                self.rec_due = t + 1            # must have fired in this cycle or the next one
        # ---------------- keep-alive ------------------------------------------------------------------
        if o["keepalive"]:
            pr["keepalive_scheduled"] += 1
            self.ka_seen = True
            self.since_ka = 0
            if self.respond is not None and en:
                d = self.respond[self.n_resp % len(self.respond)]
                self.n_resp += 1
                self.resp_at[t + 1 + d] = True
            elif en:
                pr["keepalive_withheld_response"] += 1
        if not en or tx:
            if en and tx and K - 2 <= self.k + 1 <= K:
                pr["tx_just_before_keepalive"] += 1
            self.k = 0
            self.ka_seen = False
            self.since_ka = 0
        else:
            self.k += 1
            if not o["keepalive"]:
                self.since_ka += 1
            if not self.ka_seen and self.k >= K + 2:
                return self._fail("C44.keepalive", t,
                                  f"enabled for {self.k} cycles without a transmitted link command (10 us = {K} cycles) and no "
                                  f"keep-alive was scheduled", kind="not_scheduled")
            if self.since_ka > self.TEN_MS:
                return self._fail("C44.keepalive", t,
                                  f"no keep-alive scheduled for {self.since_ka} cycles (> 10 ms = {self.TEN_MS} cycles) while "
                                  f"no link command was transmitted", kind="later_than_10ms")
        self.classes.add((en, bool(rx), tx, o["recovery"], o["keepalive"], self.c >= R, self.k >= K))
        return t >= self.horizon


def _run_timers(scn):
    cfg = scn["config"]
    bench = _timers_bench(cfg["f"])
    viol = Violations()
    probes = {p: 0 for p in PROBES}
    actor = _TimersActor(scn, viol, probes)
    log = bench.run([actor], max_cycles=cfg["horizon"] + 4)
    if not viol and log.cycles <= cfg["horizon"]:
        raise RuntimeError("run stopped early")
    sig = hashlib.blake2b(repr(("timers", cfg["f"], cfg["respond"] is None, sorted(map(repr, actor.classes)))).encode(),
                          digest_size=8).hexdigest()
    evs = [op["ev"] for op in scn["ops"]]
    if cfg["horizon"] > cfg["f"] // 100:
        probes["horizon_beyond_10ms"] += 1
    faults = {"withhold_event": probes["keepalive_withheld_response"] + probes["recovery_fired"],
              "enable_edge": evs.count("disable"),
              "strobe_near_threshold": probes["rx_just_before_timeout"] + probes["rx_at_timeout_cycle"]
                                       + probes["tx_just_before_keepalive"] + probes["disable_just_before_timeout"]}
    return {"violations": viol.items, "cycles": log.cycles, "faults": faults, "probes": probes, "sig": sig,
            "nontrivial": probes["recovery_fired"] > 0 or probes["keepalive_scheduled"] > 0,
            "digest": log.digest, "fsm": len(log.fsm_vectors)}


def run(scn):
    if scn["config"]["dut"] == "idle":
        return _run_idle(scn)
    return _run_timers(scn)


def shrink_candidates(scn):
    import copy
    if scn["config"]["dut"] == "idle":
        rows = scn["ops"]
        for i in range(len(rows) - 1, -1, -1):
            if rows[i][2] or rows[i][3]:
                cand = copy.deepcopy(scn)
                cand["ops"][i][2] = 0 if not rows[i][1] else 0xFFFFFFFF
                cand["ops"][i][3] = 0
                if cand["ops"][i] != rows[i]:
                    yield cand
    else:
        cfg = scn["config"]
        if cfg["respond"] is not None:
            cand = copy.deepcopy(scn)
            cand["config"]["respond"] = None
            yield cand
        last = max([op["at"] for op in scn["ops"]] + [0])
        for h in (last + cfg["f"] // 1000 + 4, cfg["horizon"] // 2):
            if h < cfg["horizon"]:
                cand = copy.deepcopy(scn)
                cand["config"]["horizon"] = h
                yield cand
