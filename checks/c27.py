"""
C27 -- constant-stream generators emit exactly the requested slice.

DUT: luna.gateware.stream.generator.ConstantStreamGenerator (8/16/32-bit payload, little/big endian, bytes or integer
     lists, with/without max_length) and StreamSerializer (runtime data array), real, standalone.
Actors: a requester (sets start_position / max_length / data, pulses start) and a consumer with a literal ready pattern.
Oracle: the emitted, accepted words -- decoded through their per-byte valid lanes -- must be data[start:][:max_length];
first/last/valid-mask/done/output_length as stated.

Per-byte valid convention used by the oracle: valid bit i qualifies payload bits [8i+7:8i]; the bytes of a word are
its valid lanes read in ascending lane order for little-endian constants and descending lane order for big-endian ones
(this is the order in which the generator itself packs full words and data-length partial words).
"""

import hashlib

from dsim.kernel import make_bench, cached_bench, Violations

PROPERTY = "C27"
ENGINE = "streams"
CLOCK_HZ = 60e6
RULES = {
    "C27.slice": "accepted bytes (through the valid lanes) == data[start:][:max_length]; no extra or missing words; nothing "
                 "when max_length == 0; nothing outside a started transfer",
    "C27.valid_mask": "number of valid lanes of every word == bytes carried (full words: all lanes; final word: the remainder); "
                      "little-endian: the low lanes",
    "C27.first_last": "first exactly on the first word, last exactly on the final word",
    "C27.done": "exactly one one-cycle done pulse, after the final word was accepted (within 4 cycles), none otherwise",
    "C27.output_length": "while streaming, output_length == min(len(data), max_length at start)",
    "C27.config_elaborates": "every documented configuration in the quantifier (here: with and without max_length_width) can be "
                             "elaborated at all",
    "C27.beyond_within_constant": "start positions beyond the data (outside the statement): whatever is emitted is a contiguous "
                                  "piece of the constant, not longer than max_length",
}
PROBES = ["stall_on_first_word", "stall_on_last_word", "max_length_zero", "max_length_partial_word", "data_length_partial_word",
          "both_limits_same_word", "start_beyond_data", "start_at_last", "big_endian_runs", "serializer_runs",
          "start_held_high", "controls_changed_in_flight", "single_word_transfer", "max_length_exceeds_data"]
META = {
    "components_real": ["luna.gateware.stream.generator.ConstantStreamGenerator", "luna.gateware.stream.generator.StreamSerializer"],
    "components_stubbed": ["requester (start/start_position/max_length/data[])", "consumer (literal ready pattern)"],
    "assumptions": ["start is pulsed only while the generator is idle (after done / after the quiet time of a zero-length request)",
                    "start_position, max_length and the serializer's data[] are held from the start pulse until done, except in "
                    "ops carrying the 'control_change_in_flight' fault (generator: start_position/max_length are documented as "
                    "applied at the start pulse; violations there carry controls_changed=true in their shape)",
                    "start_position of wide generators counts words (it indexes the stream)"],
    "rule": "per run one DUT configuration (kind, width, endianness, data of 1-70 bytes, max_length width) and 4-14 requests with "
            "start positions inside / at the end / beyond the data, max_length 0 / 1 / < len / >= len, ready patterns with stalls on "
            "first and last word",
}
TIERS = {"quick": {"runs": 9000, "wall": 70}, "thorough": {"runs": 40000, "wall": 900}}


# ------------------------------------------------------------------------------------------------
def gen(rng, tier, index):
    kind = rng.choice(["const", "const", "const", "serializer"])
    if kind == "const":
        width = rng.choice([8, 8, 16, 32, 32, 32])
        endian = rng.choice(["little", "little", "big"]) if width > 8 else "little"
        as_list = width > 8 and rng.random() < 0.15
        nbytes = rng.choice([1, 2, 3, 4, 5, 7, 8, 9, 12, 15, 16, 17, 18, 31, 32, 33, 64, rng.randint(1, 70), rng.randint(1, 70)])
        if as_list:
            nbytes = max(width // 8, nbytes - nbytes % (width // 8))
            endian = "little"
        data = bytes(rng.getrandbits(8) for _ in range(nbytes))
        mlw = rng.choice([4, 7, 8, 16]) if rng.random() < 0.94 else None
        domain = rng.choice(["sync", "usb", "ss"])
    else:
        width, endian, as_list = 8, "little", False
        nbytes = rng.choice([1, 2, 2, 3, 4, 5, 8, 9, 16, 17])
        data = b""
        mlw = rng.choice([None, 2, 3, 4, 8])
        domain = rng.choice(["sync", "usb"])
    bpw = width // 8
    nwords = (nbytes + bpw - 1) // bpw
    sp_bits = max(0, ((nwords if as_list else nbytes) - 1).bit_length())       # Signal(range(len(constant_data)))
    fault_free = rng.random() < 0.15
    nops = rng.randint(4, 14 if tier == "quick" else 40)
    ops = []
    for _ in range(nops):
        r = rng.random()
        if r < 0.35:
            sp = 0
        elif r < 0.75:
            sp = rng.randrange(nwords)
        elif r < 0.85:
            sp = nwords - 1
        else:
            sp = rng.randrange(1 << sp_bits) if sp_bits else 0       # may be beyond the data
        if fault_free and sp >= nwords:
            sp = nwords - 1
        op = {"gap": rng.choice([0, 0, 1, 2, 5]), "lead": rng.choice([0, 0, 1, 3]), "sp": sp,
              "hold_start": rng.random() < 0.2, "tail": rng.choice([0, 0, 1, 3])}
        if mlw:
            top = (1 << mlw) - 1
            remaining = max(0, nbytes - sp * bpw)
            r = rng.random()
            if r < 0.10:
                ml = 0
            elif r < 0.2:
                ml = 1
            elif r < 0.55:
                ml = rng.randint(1, max(1, remaining))
            elif r < 0.7:
                ml = remaining or 1
            elif r < 0.85:
                ml = rng.randint(nbytes, nbytes + 9)
            else:
                ml = rng.randint(0, top)
            op["ml"] = min(ml, top)
        fam = rng.choice(["always", "dense", "sparse", "first_stall", "last_stall"])
        if fam == "always":
            op["ready"] = [1]
        elif fam == "first_stall":
            op["ready"] = [0] * rng.randint(1, 6) + [1] * rng.randint(1, 40)
        elif fam == "last_stall":
            op["ready"] = [int(rng.random() < 0.5) for _ in range(rng.randint(2, 12))] + [0, 0, 1]
        else:
            p = 0.8 if fam == "dense" else 0.25
            op["ready"] = [int(rng.random() < p) for _ in range(rng.randint(2, 16))]
        if not any(op["ready"]):
            op["ready"][-1] = 1
        if kind == "serializer":
            op["data"] = bytes(rng.getrandbits(8) for _ in range(nbytes)).hex()
        if not fault_free and rng.random() < 0.08:
            op["fault"] = {"kind": "control_change_in_flight", "after": rng.randint(1, 6),
                           "sp": rng.randrange(1 << sp_bits) if sp_bits else 0,
                           "ml": rng.randint(0, (1 << mlw) - 1) if mlw else None}
        ops.append(op)
    cfg = {"kind": kind, "width": width, "endian": endian, "as_list": as_list, "data": data.hex(), "nbytes": nbytes,
           "mlw": mlw, "domain": domain, "sp_bits": sp_bits}
    return {"engine": ENGINE, "config": cfg, "ops": ops}


# ------------------------------------------------------------------------------------------------
def _bench(cfg):
    key = ("c27", cfg["kind"], cfg["width"], cfg["endian"], cfg["as_list"], cfg["data"], cfg["nbytes"], cfg["mlw"], cfg["domain"])

    def factory():
        from luna.gateware.stream import StreamInterface
        from luna.gateware.stream.generator import ConstantStreamGenerator, StreamSerializer
        width, domain = cfg["width"], cfg["domain"]
        if cfg["kind"] == "const":
            data = bytes.fromhex(cfg["data"])
            if cfg["as_list"]:
                bpw = width // 8
                data = [int.from_bytes(data[i:i + bpw], "little") for i in range(0, len(data), bpw)]
            if width == 32 and not cfg["as_list"] and cfg["endian"] == "little":
                from luna.gateware.usb.stream import SuperSpeedStreamInterface      # as used by the USB3 descriptor handler
                dut = ConstantStreamGenerator(data, domain=domain, stream_type=SuperSpeedStreamInterface,
                                              max_length_width=cfg["mlw"], data_endianness=cfg["endian"])
            else:
                st = lambda payload_width=width: StreamInterface(payload_width=payload_width, valid_width=payload_width // 8)
                dut = ConstantStreamGenerator(data, domain=domain, stream_type=st, data_width=width,
                                              max_length_width=cfg["mlw"], data_endianness=cfg["endian"])
        else:
            dut = StreamSerializer(cfg["nbytes"], domain=domain, data_width=8, max_length_width=cfg["mlw"])
        ins = {"start": dut.start, "rdy": dut.stream.ready}
        if len(dut.start_position):
            ins["sp"] = dut.start_position
        if cfg["mlw"]:
            ins["ml"] = dut.max_length
        if cfg["kind"] == "serializer":
            for i, s in enumerate(dut.data):
                ins[f"d{i}"] = s
        outs = {"valid": dut.stream.valid, "payload": dut.stream.payload, "first": dut.stream.first, "last": dut.stream.last,
                "done": dut.done}
        if cfg["mlw"] and cfg["kind"] == "const":
            outs["olen"] = dut.output_length
        return make_bench(dut, clocks={domain: 1 / 60e6}, main=domain, ins=ins, outs=outs)
    return cached_bench(key, factory)


def _decode(payload, valid, nlanes, endian):
    lanes = [i for i in range(nlanes) if (valid >> i) & 1]
    if endian == "big":
        lanes.reverse()
    return bytes((payload >> (8 * i)) & 0xFF for i in lanes)


def _is_substring(piece, data, bpw, endian):
    return len(piece) == 0 or piece in data


class _Actor:
    IDLE_QUIET = 6       # cycles a zero-length request is watched for silence
    TAIL = 3             # cycles after a done that are watched (requests beyond the data)

    def __init__(self, scn, viol, probes):
        cfg = scn["config"]
        self.cfg, self.ops, self.viol, self.pr = cfg, scn["ops"], viol, probes
        self.bpw = cfg["width"] // 8
        self.nbytes = cfg["nbytes"]
        self.nwords = (self.nbytes + self.bpw - 1) // self.bpw
        self.const = bytes.fromhex(cfg["data"]) if cfg["kind"] == "const" else None
        self.has_sp = cfg["sp_bits"] > 0
        self.i = -1
        self.phase = "next"
        self.dead = False
        self.finished = False
        self.classes = set()
        self.pins = {"start": 0, "rdy": 0}
        self.words_total = 0
        self._next_op(0)

    # ---- per-op state --------------------------------------------------------------------------
    def _next_op(self, t):
        self.i += 1
        if self.i >= len(self.ops):
            self.finished = True
            self.phase = "end"
            return
        op = self.op = self.ops[self.i]
        self.phase = "gap"
        self.count = op["gap"] + op["lead"]
        self.lead = op["lead"]
        self.k = 0                 # ready pattern position
        self.got = 0               # words accepted
        self.done_seen = False
        self.changed = False
        self.beyond = op["sp"] >= self.nwords
        data = bytes.fromhex(op["data"]) if self.cfg["kind"] == "serializer" else self.const
        self.data = data
        ml = op.get("ml")
        self.ml = ml
        exp = data[op["sp"] * self.bpw:]
        if ml is not None:
            exp = exp[:ml]
        self.exp = exp
        self.exp_words = (len(exp) + self.bpw - 1) // self.bpw
        self.emitted = b""
        self.since_last_word = 0
        self.timeout = 0
        self.first_word_stalled = False

    def _controls(self, op):
        d = {}
        if self.has_sp:
            d["sp"] = op["sp"]
        if self.cfg["mlw"]:
            d["ml"] = op["ml"]
        if self.cfg["kind"] == "serializer":
            for j, b in enumerate(bytes.fromhex(op["data"])):
                d[f"d{j}"] = b
        return d

    def drive(self, t):
        if self.phase == "end":
            return {"start": 0, "rdy": 1}
        op = self.op
        d = {}
        if self.phase == "gap":
            d["start"] = 0
            d["rdy"] = op["ready"][0]
            if self.count <= self.lead:
                d.update(self._controls(op))
            if self.count == 0:
                d["start"] = 1
                self.phase = "started"
                self.start_cycle = t
                self.start_high = True
            else:
                self.count -= 1
            self.cur_rdy = d["rdy"]
            return d
        # started / streaming / tail
        if self.phase == "started":
            if self.start_high and t > self.start_cycle:
                if op["hold_start"] and not self.seen_valid_since_start:
                    d["start"] = 1
                else:
                    d["start"] = 0
                    self.start_high = False
        else:
            d["start"] = 0
        f = op.get("fault")
        if f and not self.changed and self.phase == "started" and t - self.start_cycle == f["after"] \
                and not op["hold_start"] and self.ml != 0:        # (a held start with a new max_length would be a legitimate new request)
            self.changed = True
            self.pr["controls_changed_in_flight"] += 1
            # start_position is NOT disturbed: the statement quantifies over start positions of a started
            # generator, not over a position that changes while it streams (the code's 'first' follows the live
            # input there; recorded in DESIGN 10 as outside the property, after an initial false alarm).
            if self.cfg["mlw"] and f["ml"] is not None and self.cfg["kind"] == "const":
                d["ml"] = f["ml"]        # the serializer does not latch max_length: only start_position is disturbed there
        rdy = op["ready"][self.k % len(op["ready"])]
        self.k += 1
        d["rdy"] = rdy
        self.cur_rdy = rdy
        return d

    seen_valid_since_start = False

    def _fail(self, rule, t, msg, **shape):
        cfg, op = self.cfg, self.op
        cause = "none"
        if self.ml is not None and len(self.exp) == self.ml and len(self.exp) < len(self.data) - op["sp"] * self.bpw:
            cause = "max_length"
        elif len(self.exp) % self.bpw:
            cause = "data_length"
        full = msg + f" [op {self.i}: sp={op['sp']} ml={self.ml} data={self.data.hex()} expected={self.exp.hex()}]"
        self.viol.add(rule, t, full, dut=cfg["kind"], wide=cfg["width"] > 8, endian=cfg["endian"], limited_by=cause,
                      beyond=self.beyond, controls_changed=self.changed, **shape)
        self.dead = True
        return True

    def observe(self, t, o):
        if self.dead:
            return True
        if self.phase == "end":
            self.count_end = getattr(self, "count_end", 0) + 1
            if o["valid"] or o["done"]:
                return self._fail("C27.slice", t, "activity after the last request finished", what="spurious")
            return self.count_end > 3
        pr, op = self.pr, self.op
        valid, done = o["valid"], o["done"]
        if self.phase == "gap" or (self.phase == "started" and t == self.start_cycle):
            if valid:
                return self._fail("C27.slice", t, "stream valid without a start", what="spurious")
            if done:
                return self._fail("C27.done", t, "done without a transfer", what="spurious_done")
            if self.phase == "started":
                self.seen_valid_since_start = False
                if op["hold_start"]:
                    pr["start_held_high"] += 1
                if self.ml == 0:
                    pr["max_length_zero"] += 1
                if self.beyond:
                    pr["start_beyond_data"] += 1
                elif op["sp"] == self.nwords - 1 and self.nwords > 1:
                    pr["start_at_last"] += 1
                if self.ml is not None and self.ml > len(self.data) - op["sp"] * self.bpw >= 0:
                    pr["max_length_exceeds_data"] += 1
            return False

        # ---- inside a started request ---------------------------------------------------------------
        self.timeout += 1
        if valid:
            self.seen_valid_since_start = True
        # zero-length request: silence, then next op (done is not specified for it: a pulse is tolerated)
        if self.ml == 0:
            if valid:
                return self._fail("C27.slice", t, "stream valid although max_length == 0", what="nonzero_for_zero_length")
            if self.timeout >= self.IDLE_QUIET:
                self._next_op(t)
            return False

        if self.phase == "tail":
            if valid:
                return self._fail("C27.slice", t, "stream valid again after done", what="extra")
            if done:
                return self._fail("C27.done", t, "second done pulse / done longer than one cycle", what="done_repeated")
            self.count -= 1
            if self.count <= 0:
                self._next_op(t)
            return False

        # streaming
        if done:
            if self.beyond:
                self.phase, self.count = "tail", self.TAIL
                return False
            if self.got < self.exp_words:
                return self._fail("C27.done", t, f"done after {self.got} of {self.exp_words} words", what="early_done")
            self.done_seen = True
            if op["tail"] == 0:
                self._next_op(t)
            else:
                self.phase, self.count = "tail", op["tail"]
            return False
        if self.got >= self.exp_words and not self.beyond:
            # all words accepted: only the done pulse may follow
            if valid:
                return self._fail("C27.slice", t, f"word offered after the final word (payload {o['payload']:#x})", what="extra")
            self.since_last_word += 1
            if self.since_last_word > 4:
                return self._fail("C27.done", t, "no done pulse within 4 cycles of the final word", what="missing_done")
            return False
        if not valid:
            if self.got == 0 and self.timeout > 8:
                if self.beyond:
                    self._next_op(t)
                    return False
                return self._fail("C27.slice", t, "stream did not start within 8 cycles of the start pulse", what="no_start")
            if self.got > 0:
                self.gapcount = getattr(self, "gapcount", 0) + 1
                if self.gapcount > 8:
                    if self.beyond:
                        self._next_op(t)
                        return False
                    return self._fail("C27.slice", t, f"stream stopped after {self.got} of {self.exp_words} words", what="missing")
            return False
        self.gapcount = 0
        # output_length (generator with max_length only)
        if "olen" in o and not self.changed and not self.cfg["as_list"]:
            want = min(self.nbytes, self.ml)
            if o["olen"] != want:
                return self._fail("C27.output_length", t, f"output_length={o['olen']} expected {want}")
        if not self.cur_rdy:
            if self.got == 0:
                self.first_word_stalled = True
            if self.got == self.exp_words - 1:
                pr["stall_on_last_word"] += 1
            return False
        # ---- a word is transferred --------------------------------------------------------------
        got_bytes = _decode(o["payload"], valid, self.bpw, self.cfg["endian"])
        idx = self.got
        self.got += 1
        self.words_total += 1
        self.since_last_word = 0
        if self.first_word_stalled and idx == 0:
            pr["stall_on_first_word"] += 1
        if self.beyond:
            if o["last"] and not o["first"] and self.got == 1:
                # 'last' without 'first' is LUNA's empty-packet (ZLP) convention: a start at/after the end of the
                # data is answered with an empty packet; it carries no bytes of the constant.
                return False
            self.emitted += got_bytes
            if not _is_substring(self.emitted, self.data, self.bpw, self.cfg["endian"]) or \
                    (self.ml is not None and len(self.emitted) > self.ml):
                return self._fail("C27.beyond_within_constant", t, f"emitted {self.emitted.hex()} is not a piece of the constant")
            return False
        chunk = self.exp[idx * self.bpw:(idx + 1) * self.bpw]
        self.classes.add((idx == 0, idx == self.exp_words - 1, len(chunk), bool(self.first_word_stalled)))
        if idx == self.exp_words - 1:
            if len(chunk) < self.bpw:
                by_ml = self.ml is not None and len(self.exp) == self.ml and self.ml < len(self.data) - op["sp"] * self.bpw
                by_len = (len(self.data) - op["sp"] * self.bpw) <= (self.ml if self.ml is not None else 1 << 30)
                if by_ml:
                    pr["max_length_partial_word"] += 1
                if by_len and not by_ml:
                    pr["data_length_partial_word"] += 1
            if self.ml is not None and self.ml == len(self.data) - op["sp"] * self.bpw:
                pr["both_limits_same_word"] += 1
            if self.exp_words == 1:
                pr["single_word_transfer"] += 1
        nvalid = bin(valid).count("1")
        if nvalid != len(chunk) or (self.cfg["endian"] == "little" and valid != (1 << len(chunk)) - 1):
            return self._fail("C27.valid_mask", t, f"word {idx}: valid={valid:#b}, expected {len(chunk)} byte lane(s)", what="mask")
        if got_bytes != chunk:
            return self._fail("C27.slice", t, f"word {idx}: payload={o['payload']:#x} valid={valid:#b} carries {got_bytes.hex()}, "
                              f"expected {chunk.hex()}", what="wrong_bytes")
        if o["first"] != int(idx == 0):
            return self._fail("C27.first_last", t, f"word {idx} of {self.exp_words}: first={o['first']}", what="first")
        if o["last"] != int(idx == self.exp_words - 1):
            return self._fail("C27.first_last", t, f"word {idx} of {self.exp_words}: last={o['last']}", what="last")
        return False


def run(scn):
    cfg = scn["config"]
    viol = Violations()
    probes = {p: 0 for p in PROBES}
    try:
        bench = _bench(cfg)
    except Exception as e:
        import traceback
        tb = traceback.extract_tb(e.__traceback__)
        if "/luna/gateware/" not in tb[-1].filename:
            raise                                   # a harness problem, not the DUT's
        viol.add("C27.config_elaborates", 0, f"{cfg['kind']} with max_length_width={cfg['mlw']} width={cfg['width']} cannot be "
                 f"elaborated: {type(e).__name__}: {e} at {tb[-1].filename.split('/luna/')[-1]}:{tb[-1].lineno}",
                 dut=cfg["kind"], max_length_width_given=cfg["mlw"] is not None, error=type(e).__name__)
        return {"violations": viol.items, "cycles": 0, "faults": {}, "probes": probes, "sig": "elab-error", "nontrivial": False,
                "digest": hashlib.blake2b(repr(viol.items).encode(), digest_size=16).hexdigest(), "fsm": 0}
    actor = _Actor(scn, viol, probes)
    bound = 50
    bpw = cfg["width"] // 8
    for op in scn["ops"]:
        dens = max(1, sum(op["ready"])) / len(op["ready"])
        bound += int(op["gap"] + op["lead"] + 30 + (cfg["nbytes"] // bpw + 2) / dens + 3 * len(op["ready"]))
    init = {}
    log = bench.run([actor], max_cycles=bound, init=init)
    if not viol and not actor.finished:
        raise RuntimeError(f"script did not finish within {bound} cycles (op {actor.i} phase {actor.phase})")
    if cfg["endian"] == "big":
        probes["big_endian_runs"] += 1
    if cfg["kind"] == "serializer":
        probes["serializer_runs"] += 1
    faults = {"ready_stall": probes["stall_on_first_word"] + probes["stall_on_last_word"],
              "control_change_in_flight": probes["controls_changed_in_flight"],
              "start_beyond_data": probes["start_beyond_data"], "zero_length_request": probes["max_length_zero"]}
    sig = hashlib.blake2b(repr((cfg["kind"], cfg["width"], cfg["endian"], cfg["mlw"] is None, sorted(actor.classes),
                                sorted(k for k, v in probes.items() if v))).encode(), digest_size=8).hexdigest()
    return {"violations": viol.items, "cycles": log.cycles, "faults": faults, "probes": probes, "sig": sig,
            "nontrivial": actor.words_total > 0, "digest": log.digest, "fsm": len(log.fsm_vectors)}


def shrink_candidates(scn):
    import copy
    for i, op in enumerate(scn["ops"]):
        if op["ready"] != [1]:
            cand = copy.deepcopy(scn)
            cand["ops"][i]["ready"] = [1]
            yield cand
        if op.get("hold_start"):
            cand = copy.deepcopy(scn)
            cand["ops"][i]["hold_start"] = False
            yield cand
        if op["gap"] or op["lead"]:
            cand = copy.deepcopy(scn)
            cand["ops"][i]["gap"] = 0
            cand["ops"][i]["lead"] = 0
            yield cand
