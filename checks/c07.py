"""
C07 -- control transfers follow the setup / data / status stage protocol.

DUT: the complete USBDevice (V1 12 MHz / V2 60 MHz timing; EP0 max packet size 8 or 64) with the standard control endpoint,
a bulk IN endpoint (EP1, always has data), a bulk OUT endpoint (EP2, consumer always ready) and the passive spies.

The host plays sequences of control transfers chosen from the implemented standard requests (GET_STATUS, GET_DESCRIPTOR,
GET_CONFIGURATION, SET_CONFIGURATION, CLEAR_FEATURE(ENDPOINT_HALT)) and perturbs them: transfers abandoned at every stage
boundary, a new SETUP in the middle of a data or status stage, repeated SETUPs, lost handshakes, EP1/EP2 transactions and
SOFs between the stages, IN tokens before any SETUP, wrong-direction tokens, PINGs.  A spec-level control-transfer model,
advanced only by what the host itself sent, predicts the class (and, where the specification fixes it, the content and data
PID) of every EP0 response.
"""

import hashlib

from dsim.kernel import Violations
from models.usb2_wire import gen_idle_data
from models import usb2
from models.usb2 import UTMIHost
from models.usb2_ctrl import Txn, StreamFeeder, StreamSink, setup_bytes, decode_setup, is_data
from engines.usb2_device import device_bench, default_descriptors, descriptor_table, IDLE_INIT

PROPERTY = "C07"
ENGINE = "usb2_device"
CLOCK_HZ = 60e6
RULES = {
    "C07.data_in_only_after_in_setup": "a (non-empty) data packet is sent on EP0 only in the data stage of a device-to-host SETUP "
                                       "with wLength > 0; never before any SETUP, in a transfer without IN data stage, or after the "
                                       "host has moved on to the status stage",
    "C07.status_direction": "the status stage is answered in the direction opposite to the data stage: a ZLP on IN when there is "
                            "no data stage (never an ACK of an OUT), a handshake to the OUT after an IN data stage (never a ZLP)",
    "C07.setup_restarts": "every SETUP is ACKed and the transfer it starts behaves as a fresh one (class of every response, first "
                          "data packet DATA1 from offset 0, status stage) whatever the previous transfer was left in",
    "C07.other_ep_no_effect": "EP0 responses are those of an undisturbed transfer although EP1/EP2 transactions and SOFs are "
                              "interleaved between its stages",
}
PROBES = ["abandoned_after_setup", "abandoned_mid_data", "abandoned_before_status", "abandoned_mid_status", "setup_mid_stage",
          "repeated_setup", "interleave_between_stages", "in_before_any_setup", "wrong_direction_token", "ping", "lost_handshake",
          "multi_packet_data_stage", "transfer_completed", "early_status", "fresh_after_abandon_checked"]
META = {
    "components_real": ["USBDevice", "USBControlEndpoint", "StandardRequestHandler", "USBRequestHandlerMultiplexer",
                        "USBSetupDecoder", "GetDescriptorHandlerBlock", "StreamSerializer", "USBTokenDetector",
                        "USBHandshakeDetector", "USBHandshakeGenerator", "USBDataPacketReceiver", "USBDataPacketGenerator",
                        "USBEndpointMultiplexer", "USBStreamInEndpoint", "USBStreamOutEndpoint"],
    "components_stubbed": ["UTMI PHY + host (models.usb2.UTMIHost, models.usb2_ctrl.Txn)", "EP1 producer / EP2 consumer",
                           "passive spy endpoint / spy request handler (observation only)"],
    "assumptions": ["legal UTMI receive side; the host never transmits while the device transmits",
                    "requests come from the implemented standard set with their standard wLength/direction (none has an OUT data stage)",
                    "content is judged only where USB fixes it: GET_DESCRIPTOR (descriptor table slice, DATA1 first, alternating), "
                    "GET_CONFIGURATION (value last committed by an acknowledged SET_CONFIGURATION), GET_STATUS (2 bytes, any value)",
                    "a NAK or STALL is accepted as a legal answer of a status stage; silence, an ACK handshake to an IN token or a data "
                    "packet to an OUT are not",
                    "content / PID / must-answer deviations are reported only for transfers that follow an abandoned transfer "
                    "(C07.setup_restarts) or have other-endpoint traffic between their stages (C07.other_ep_no_effect)",
                    "PING on EP0 is treated like an OUT token without data (it may start the status stage of an IN transfer)"],
    "rule": "2-7 control transfers per run; each is a standard token sequence that is then truncated (abandon), has handshakes "
            "dropped, has other-endpoint transactions / SOFs / idle inserted between stages, wrong-direction tokens and PINGs added, or "
            "is repeated; ~15 % of the runs fault-free; timing variant, EP0 packet size, byte period, gaps, tx_ready per run",
}
TIERS = {"quick": {"runs": 1600, "wall": 90}, "thorough": {"runs": 30000, "wall": 900}}


def _dev_cfg(variant, mps):
    return {"variant": variant, "ep0_mps": mps, "endpoints": [{"kind": "stream_in", "ep": 1, "mps": 8},
                                                               {"kind": "stream_out", "ep": 2, "mps": 8}]}


_TABLES = {}


def _table(mps):
    """ descriptor table of the engine's default collection (usb_protocol only; no LUNA code involved) """
    if mps not in _TABLES:
        _TABLES[mps] = {(int(t), int(i)): bytes(d) for (t, i), d in descriptor_table(default_descriptors(mps)).items()}
    return _TABLES[mps]


# ------------------------------------------------------------------------------------------------
def classify_request(b):
    """ -> (kind, has_in_data) for the implemented requests this check uses, else (None, ...) """
    d = decode_setup(b)
    if d["type"] != 0:
        return None, False
    if d["request"] == 0 and d["is_in"] and d["length"] == 2:
        return "GET_STATUS", True
    if d["request"] == 6 and d["is_in"] and d["length"] > 0:
        return "GET_DESCRIPTOR", True
    if d["request"] == 8 and d["is_in"] and d["length"] == 1:
        return "GET_CONFIGURATION", True
    if d["request"] == 9 and not d["is_in"] and d["length"] == 0:
        return "SET_CONFIGURATION", False
    if d["request"] == 1 and not d["is_in"] and d["length"] == 0 and d["recipient"] == 2 and d["value"] == 0:
        return "CLEAR_FEATURE", False
    return None, False


def _pick_request(rng, table):
    r = rng.random()
    if r < 0.14:
        return setup_bytes(0x80 | rng.choice([0, 1, 2]), 0, 0, rng.choice([0, 0x81]), 2)
    if r < 0.52:
        keys = sorted(table)
        t, i = rng.choice(keys)
        n = len(table[(t, i)])
        wl = rng.choice([n, n, 8, 18, 64, 255, max(1, n - 3), n + 1])
        return setup_bytes(0x80, 6, (t << 8) | i, rng.choice([0, 0x0409]) if t == 3 else 0, wl)
    if r < 0.66:
        return setup_bytes(0x80, 8, 0, 0, 1)
    if r < 0.86:
        return setup_bytes(0x00, 9, rng.choice([0, 1, 1, 2, rng.randint(0, 255)]), 0, 0)
    return setup_bytes(0x02, 1, 0, rng.choice([0x81, 0x02, 0x01]), 0)


def _other(rng):
    r = rng.random()
    if r < 0.45:
        return {"op": "in1", "ack": rng.random() < 0.85}
    if r < 0.75:
        return {"op": "out2", "len": rng.choice([1, 3, 8]), "pid": rng.choice(["DATA0", "DATA1"])}
    if r < 0.88:
        return {"op": "sof", "frame": rng.getrandbits(11)}
    return {"op": "idle", "n": rng.randint(1, 60)}


def gen(rng, tier, index):
    mps = rng.choice([8, 8, 64])
    cfg = {
        "variant": rng.choice(["V1", "V2"]), "mps": mps,
        "byte_period": rng.choice([1, 1, 2, 3]), "pre": rng.choice([1, 1, 2]), "post": rng.choice([0, 0, 1]),
        "txready": rng.choice(["always", "always", "always", ["every", 2], ["every", 3]]),
        "tok_gap": rng.choice([1, 2, 3, 6]), "turn": rng.choice([1, 2, 3, 5, 9]), "rest": rng.choice([2, 4, 8, 20]),
    }
    table = _table(mps)
    fault_free = rng.random() < 0.15
    ops = []
    if not fault_free and rng.random() < 0.25:
        for _ in range(rng.randint(1, 3)):
            ops.append(rng.choice([{"op": "in0", "ack": True}, {"op": "in0", "ack": False}, {"op": "in1", "ack": True},
                                   {"op": "out0", "pid": "DATA1", "len": 0}]))
    prev_setup = None
    for _ in range(rng.randint(2, 5 if tier == "quick" else 9)):
        b = _pick_request(rng, table)
        if prev_setup is not None and not fault_free and rng.random() < 0.12:
            b = prev_setup                                                   # repeated SETUP
        prev_setup = b
        kind, has_data = classify_request(b)
        d = decode_setup(b)
        seq = [{"op": "setup", "data": b.hex()}]
        if has_data:
            if kind == "GET_DESCRIPTOR":
                desc = table.get((d["value"] >> 8, d["value"] & 0xFF), b"")
                total = min(len(desc), d["length"])
            else:
                total = d["length"]
            # packets a host reads: full ones, then a short one -- or a ZLP when the total is a multiple below wLength
            npk = total // mps + (1 if (total % mps or total < d["length"]) else 0)
            npk = max(1, npk)
            for _ in range(npk):
                seq.append({"op": "in0", "ack": True})
            if not fault_free and rng.random() < 0.15:
                seq.append({"op": "ping0"})
            seq.append({"op": "out0", "pid": "DATA1", "len": 0})
        else:
            seq.append({"op": "in0", "ack": True})
        if not fault_free:
            # lost handshakes: a data / status packet is not acknowledged and the token is issued again
            k = 1
            while k < len(seq):
                if seq[k]["op"] == "in0" and rng.random() < 0.15:
                    seq.insert(k, {"op": "in0", "ack": False})
                    k += 1
                k += 1
            # wrong-direction tokens
            if rng.random() < 0.2:
                pos = rng.randint(1, len(seq))
                seq.insert(pos, {"op": "out0", "pid": rng.choice(["DATA1", "DATA0"]), "len": rng.choice([0, 0, 4])} if not has_data
                           else {"op": "in0", "ack": rng.random() < 0.5})
            # early status (the host stops reading) / abandon (the host gives up; the next SETUP follows)
            q = rng.random()
            if q < 0.35:
                seq = seq[:rng.randint(1, len(seq) - 1)]
            elif q < 0.45 and has_data and len(seq) > 3:
                del seq[rng.randint(1, len(seq) - 2)]
            # other-endpoint traffic between the stages
            if rng.random() < 0.6:
                for _ in range(rng.randint(1, 3)):
                    seq.insert(rng.randint(1, len(seq)), _other(rng))
        ops.extend(seq)
        if rng.random() < 0.3:
            ops.append(_other(rng))
    cfg["idle_data"] = gen_idle_data(rng)
    return {"engine": ENGINE, "config": cfg, "ops": ops}


# ------------------------------------------------------------------------------------------------
class _Transfer:
    def __init__(self, b, table, mps, cfg_value):
        self.bytes = b
        self.kind, self.has_data = classify_request(b)
        d = decode_setup(b)
        self.d = d
        self.stage = "data" if self.has_data else "status"       # which stage the host is in
        self.done = False
        self.offset = 0
        self.pid = "DATA1"
        self.data_complete = False
        self.status_zlp_unacked = False
        self.interleaved = False
        self.tokens = 0
        self.pieces_acked = 0
        self.ping_seen = False         # a PING arrived in the data stage: a full-speed device may ignore it or take it as status
        if self.kind == "GET_DESCRIPTOR":
            desc = table.get((d["value"] >> 8, d["value"] & 0xFF))
            self.expected = None if desc is None else desc[:min(len(desc), d["length"])]
            self.absent = desc is None
        elif self.kind == "GET_CONFIGURATION":
            self.expected, self.absent = bytes([cfg_value]), False
        else:
            self.expected, self.absent = None, False              # GET_STATUS: two bytes, value not fixed by the statement
        self.mps = mps

    def expected_piece(self):
        if self.expected is None:
            return None
        return self.expected[self.offset:self.offset + self.mps]

    def where(self):
        if self.done:
            return "after_completion"
        if self.stage == "data":
            return "data_complete" if self.data_complete else ("data" if self.pieces_acked or self.tokens else "first_data")
        return "status_zlp_unacked" if self.status_zlp_unacked else "status"


def run(scn):
    cfg = scn["config"]
    variant, mps = cfg["variant"], cfg["mps"]
    bench = device_bench(_dev_cfg(variant, mps))
    table = _table(mps)
    init = dict(IDLE_INIT)
    init["full_speed_only"] = 1
    viol = Violations()
    probes = {p: 0 for p in PROBES}
    faults = {}
    ops = scn["ops"]
    outcomes = set()
    st = {"cur": None, "cfg": 0, "abandoned": "none", "abandoned_at": "none", "dead": False, "clean_anomalies": 0, "beyond_end": False}

    def fault(kind):
        faults[kind] = faults.get(kind, 0) + 1

    def shape(stage, want, got):
        """ deliberately coarse; the message carries variant, packet size, setup bytes, where the previous transfer was left """
        cur = st["cur"]
        s = {"stage": stage, "got": got, "after_abandoned_transfer": st["abandoned"] != "none",
             "in_beyond_data_end_earlier": st["beyond_end"]}
        if st["abandoned"] == "none":
            s["cur"] = cur.kind if cur else "none"
        return s

    def ctx():
        cur = st["cur"]
        return (f"[{variant}, EP0 mps {mps}; transfer {cur.kind + ' ' + cur.bytes.hex() if cur else 'none'}; previous transfer "
                f"{st['abandoned']} abandoned at {st['abandoned_at']}; other-endpoint traffic since its SETUP: {bool(cur and cur.interleaved)}; "
                f"an IN token was issued after the end of an earlier data stage: {st['beyond_end']}]")

    def bad(rule, t, msg, stage, want, got):
        viol.add(rule, t, msg + " " + ctx(), **shape(stage, want, got))
        st["dead"] = True

    def context_rule():
        """ which rule a deviation from the fresh-transfer model belongs to; None = not a C07 matter (clean, undisturbed) """
        cur = st["cur"]
        if st["abandoned"] != "none" or st["beyond_end"]:
            return "C07.setup_restarts"            # the history before this SETUP was not a clean, completed transfer
        if cur is not None and cur.interleaved:
            return "C07.other_ep_no_effect"
        return None

    def model_deviation(t, msg, stage, want, got):
        rule = context_rule()
        if rule is None:
            st["clean_anomalies"] += 1
            outcomes.add("clean_anomaly")
            return
        bad(rule, t, msg, stage, want, got)

    def script(h):
        x = Txn(h, variant, tok_gap=cfg["tok_gap"], turn=cfg["turn"], rest=cfg["rest"])
        yield from h.idle(4)
        for op in ops:
            if st["dead"]:
                return
            kind = op["op"]
            cur = st["cur"]
            if kind == "idle":
                yield from h.idle(op["n"])
                continue
            if kind == "sof":
                yield from h.send(usb2.sof_packet(op["frame"]), info="sof")
                yield from h.idle(cfg["rest"])
                continue
            if kind in ("in1", "out2"):
                if cur is not None and not cur.done:
                    if not cur.interleaved:
                        probes["interleave_between_stages"] += 1
                    fault("interleave_other_ep")
                    cur.interleaved = True
                if kind == "in1":
                    r = yield from x.in_(0, 1)
                    if is_data(r):
                        if op["ack"]:
                            yield from x.handshake("ACK")
                            yield from h.idle(4)
                        else:
                            yield from h.idle(cfg["rest"] + cfg["turn"])
                else:
                    yield from x.out(0, 2, op["pid"], bytes((7 * i + 1) & 0xFF for i in range(op["len"])))
                continue
            if kind == "setup":
                b = bytes.fromhex(op["data"])
                if cur is not None and not cur.done:
                    # the previous transfer is abandoned here
                    where = cur.where()
                    if cur.tokens == 0:
                        probes["abandoned_after_setup"] += 1
                    elif where in ("data", "first_data"):
                        probes["abandoned_mid_data"] += 1
                    elif where == "data_complete":
                        probes["abandoned_before_status"] += 1
                    else:
                        probes["abandoned_mid_status"] += 1
                    if cur.tokens:
                        probes["setup_mid_stage"] += 1
                    if cur.bytes == b:
                        probes["repeated_setup"] += 1
                    fault("abandon_transfer")
                    st["abandoned"], st["abandoned_at"] = cur.kind, ("after_setup" if cur.tokens == 0 else where)
                r = yield from x.setup(0, 0, b)
                new = _Transfer(b, table, mps, st["cfg"])
                if new.kind is None:
                    raise RuntimeError("scenario contains a request outside this check's catalogue")
                st["cur"] = new
                if r["kind"] != "ACK":
                    bad("C07.setup_restarts", h.t, f"SETUP {b.hex()} answered {r['kind']} instead of ACK", "setup", "ACK", r["kind"])
                    return
                continue
            if kind == "in0":
                r = yield from x.in_(0, 0)
                got = ("ZLP" if r["payload"] == b"" else "DATA") if is_data(r) else r["kind"]
                outcomes.add("in_" + got)
                if cur is None:
                    probes["in_before_any_setup"] += 1
                    fault("token_without_transfer")
                    if is_data(r):
                        bad("C07.data_in_only_after_in_setup", r["start"], f"IN token on EP0 before any SETUP answered with {r['kind']} "
                            f"{r['payload'].hex()}", "no_transfer", "no data", got)
                        return
                    continue
                cur.tokens += 1
                if cur.ping_seen and not cur.done:
                    if is_data(r):                      # ambiguous after a PING: not judged; keep the bus legal
                        yield from h.idle(cfg["rest"])
                    continue
                in_data_stage = cur.has_data and cur.stage == "data" and not cur.done
                if not in_data_stage:
                    # -------- not a data stage: never (non-empty) data --------
                    if is_data(r) and r["payload"] != b"":
                        bad("C07.data_in_only_after_in_setup", r["start"], f"IN token answered with {r['kind']} {r['payload'].hex()} "
                            f"although the transfer has no IN data stage at this point ({cur.where()})", cur.where(), "no data", got)
                        return
                    if cur.has_data or cur.done:
                        # IN token after the host moved to the OUT status stage / after completion: wrong-direction token
                        probes["wrong_direction_token"] += 1
                        fault("wrong_direction_token")
                        if is_data(r) and cur.has_data and not cur.done:
                            bad("C07.status_direction", r["start"], "status stage of a transfer with IN data stage answered with a ZLP on "
                                "an IN token (same direction as the data stage)", "status_out", "no ZLP", got)
                            return
                        if is_data(r):
                            yield from h.idle(cfg["rest"])
                        continue
                    # -------- status stage of a transfer without data stage: ZLP --------
                    if got in ("NONE", "ACK", "BAD", "NYET"):
                        rule = context_rule() or "C07.status_direction"
                        bad(rule, h.t, f"status-stage IN token of a transfer without data stage answered {got} (expected a ZLP)",
                            cur.where(), "ZLP", got)
                        return
                    if got == "ZLP":
                        if r["kind"] != "DATA1":
                            model_deviation(r["start"], f"status ZLP sent with {r['kind']} (expected DATA1)", cur.where(), "DATA1", r["kind"])
                            if st["dead"]:
                                return
                        if op["ack"]:
                            yield from x.handshake("ACK")
                            cur.done = True
                            probes["transfer_completed"] += 1
                            if cur.kind == "SET_CONFIGURATION":
                                st["cfg"] = cur.d["value"] & 0xFF
                            if st["abandoned"] != "none":
                                probes["fresh_after_abandon_checked"] += 1
                            st["abandoned"], st["abandoned_at"] = "none", "none"
                        else:
                            probes["lost_handshake"] += 1
                            fault("lost_handshake")
                            cur.status_zlp_unacked = True
                            yield from h.idle(cfg["rest"] + cfg["turn"])
                    else:
                        # NAK / STALL: a legal (if unhelpful) answer in the right direction; a deviation from the fresh model
                        model_deviation(h.t, f"status-stage IN token answered {got} (a fresh transfer gets a ZLP)", cur.where(), "ZLP", got)
                    continue
                # -------- data stage of a device-to-host transfer --------
                if cur.data_complete:
                    st["beyond_end"] = True
                    fault("in_beyond_data_end")
                    if is_data(r):                      # the host asks beyond the end: unspecified; keep the bus legal
                        yield from h.idle(cfg["rest"])
                    continue
                want = cur.expected_piece()
                stage = cur.where()
                if not is_data(r):
                    if cur.absent and got == "STALL":
                        cur.data_complete = True
                        continue
                    model_deviation(h.t, f"data-stage IN token answered {got} (a fresh transfer gets "
                                    f"{'data' if want is None else cur.pid + ' ' + want.hex()})", stage, "DATA", got)
                    if st["dead"]:
                        return
                    continue
                payload = r["payload"]
                if cur.absent:
                    model_deviation(r["start"], f"GET_DESCRIPTOR for a descriptor that does not exist answered with data {payload.hex()}",
                                    stage, "STALL", got)
                    if st["dead"]:
                        return
                elif want is not None and payload != want:
                    model_deviation(r["start"], f"data stage at offset {cur.offset}: expected {want.hex()} got {payload.hex()}",
                                    stage, "fresh_data", "other_data")
                    if st["dead"]:
                        return
                elif want is None and cur.kind == "GET_STATUS" and len(payload) != 2:
                    model_deviation(r["start"], f"GET_STATUS data stage returned {len(payload)} bytes", stage, "2 bytes", "other_data")
                    if st["dead"]:
                        return
                if r["kind"] != cur.pid:
                    model_deviation(r["start"], f"data packet at offset {cur.offset} sent with {r['kind']} (expected {cur.pid})",
                                    stage, cur.pid, r["kind"])
                    if st["dead"]:
                        return
                if op["ack"]:
                    yield from x.handshake("ACK")
                    cur.pieces_acked += 1
                    cur.offset += len(payload)
                    cur.pid = "DATA0" if cur.pid == "DATA1" else "DATA1"
                    if cur.pieces_acked == 2:
                        probes["multi_packet_data_stage"] += 1
                    if len(payload) < mps or cur.offset >= cur.d["length"]:
                        cur.data_complete = True
                else:
                    probes["lost_handshake"] += 1
                    fault("lost_handshake")
                    yield from h.idle(cfg["rest"] + cfg["turn"])
                continue
            if kind in ("out0", "ping0"):
                if kind == "ping0":
                    probes["ping"] += 1
                    r = yield from x.ping(0, 0)
                else:
                    payload = bytes((5 * i + 2) & 0xFF for i in range(op["len"]))
                    r = yield from x.out(0, 0, op["pid"], payload)
                got = ("ZLP" if r["payload"] == b"" else "DATA") if is_data(r) else r["kind"]
                outcomes.add(kind + "_" + got)
                if is_data(r) or got == "BAD":
                    stage = cur.where() if cur else "no_transfer"
                    rule = "C07.status_direction" if (cur and cur.has_data and not cur.done) else "C07.data_in_only_after_in_setup"
                    bad(rule, r["start"], f"device transmitted a data packet {r['raw'].hex()} in response to an "
                        f"{'OUT transaction' if kind == 'out0' else 'PING'} on EP0", stage, "handshake or nothing", got)
                    return
                if cur is None:
                    fault("token_without_transfer")
                    continue
                cur.tokens += 1
                if cur.done:
                    continue
                if not cur.has_data:
                    # wrong direction for a transfer without data stage: it must not be taken as the status stage
                    probes["wrong_direction_token"] += 1
                    fault("wrong_direction_token")
                    if kind == "out0" and got in ("ACK", "NYET"):
                        bad("C07.status_direction", r["start"], f"OUT transaction in a transfer without data stage was answered {got}: the "
                            "status stage of such a transfer is an IN", cur.where(), "no ACK", got)
                        return
                    continue
                # transfer with IN data stage: OUT (or PING) = the host moves to the status stage
                if cur.stage == "data" and not cur.data_complete:
                    probes["early_status"] += 1
                if kind == "ping0":
                    if cur.stage == "data":
                        cur.ping_seen = True
                    continue
                cur.stage = "status"
                if op["len"] == 0 and op["pid"] == "DATA1":
                    if got in ("NONE",):
                        rule = context_rule() or "C07.status_direction"
                        bad(rule, h.t, "status-stage OUT (zero-length DATA1) after an IN data stage was not answered",
                            "status_out", "ACK", got)
                        return
                    if got == "ACK":
                        cur.done = True
                        probes["transfer_completed"] += 1
                        if st["abandoned"] != "none":
                            probes["fresh_after_abandon_checked"] += 1
                        st["abandoned"], st["abandoned_at"] = "none", "none"
                    else:
                        model_deviation(h.t, f"status-stage OUT answered {got} (a fresh transfer gets an ACK)", "status_out", "ACK", got)
                continue
            raise ValueError(kind)
        yield from h.idle(12)

    host = UTMIHost(script, idle_data=cfg.get("idle_data"), byte_period=cfg["byte_period"], pre=cfg["pre"], post=cfg["post"],
                    txready=(cfg["txready"] if cfg["txready"] == "always" else tuple(cfg["txready"])))
    feeder = StreamFeeder("in1_", seed=len(ops))
    sink = StreamSink("out2_")
    per_op = (mps + 20) * (cfg["byte_period"] + 3) + 4 * 100 + 4 * cfg["rest"] + 80
    max_cycles = 600 + sum(per_op + op.get("n", 0) for op in ops)
    log = bench.run([host, feeder, sink], max_cycles, init=init)
    if not host._done and not viol:
        raise RuntimeError("host script did not finish within the cycle cap")

    if st["clean_anomalies"]:
        probes["clean_transfer_anomaly(not judged)"] = st["clean_anomalies"]
    sig = hashlib.blake2b(repr((variant, mps, sorted(log.fsm_vectors), sorted(faults), sorted(outcomes))).encode(),
                          digest_size=8).hexdigest()
    nontrivial = bool(faults) and probes["transfer_completed"] > 0
    return {"violations": viol.items, "cycles": log.cycles, "faults": faults, "probes": probes, "sig": sig,
            "nontrivial": nontrivial, "digest": log.digest, "fsm": len(log.fsm_vectors)}
