"""
C35 -- link commands round-trip; corrupted commands are rejected.

DUT: LinkCommandGenerator and LinkCommandDetector (both real), in one bench, *not* connected in gateware: a Python
pipe carries every word the generator gets accepted on its `source` (valid & ready) into the detector's `sink`,
optionally through a fault injector (replica mismatch, CRC-5 damage, K symbols in the command word, not-valid
words and ghost words between LCSTART and the command word) and mixed with other traffic.  Detector-only raw
commands (built by the reference model) are injected as well, so each block is also exercised alone.

Oracles (reference model: models.usb3_link, independent CRC-5):
 * wire: the words the generator gets accepted == LCSTART, (lcw | lcw << 16, ctrl 0) for the requested commands, in
   order, nothing else; `done` is high exactly in the cycles in which a command word is accepted.
 * detector: strobes of `new_command` == the intact commands of the stream that was fed to it (reference parse of
   the fed words), in order, with one consistent latency; command / class / type / subtype equal the fields.
"""

import hashlib

from dsim.kernel import make_bench, cached_bench, Violations
from models import usb3_link as L

PROPERTY = "C35"
ENGINE = "usb3_link"
CLOCK_HZ = 125e6
RULES = {
    "C35.wire": "accepted generator words are LCSTART + two identical 16-bit command words with the reference CRC-5, one pair per requested command, in order",
    "C35.done": "done is high exactly in the cycle in which a command word is accepted (once per command)",
    "C35.progress": "a requested command is completely on the wire within a bound once the PHY side is ready",
    "C35.detect_iff_intact": "new_command strobes exactly once for every intact command fed to the detector and never otherwise",
    "C35.fields": "command / command_class / command_type / subtype at the strobe equal the fields of the intact command word",
}
PROBES = ["gen_ready_stall_in_header", "gen_ready_stall_in_command", "generate_held_back_to_back", "inputs_changed_mid_command",
          "det_gap_before_command_word", "det_ghost_word_in_gap", "det_mismatch", "det_crc", "det_ctrl", "det_crc_valid_other_command",
          "det_back_to_back", "raw_commands"]
META = {
    "components_real": ["LinkCommandGenerator", "LinkCommandDetector", "compute_usb_crc5"],
    "components_stubbed": ["PHY-side ready (literal pattern)", "the wire between generator and detector (Python pipe + fault injector)",
                           "other traffic (reference-built headers, data words, idle)"],
    "assumptions": ["generate / command / subtype are only *newly* asserted while the generator is idle (as HeaderPacketReceiver does); "
                    "holding generate or changing command/subtype during a transmission is exercised and must not disturb it",
                    "not-valid words between LCSTART and the command word carry no information (the detector must wait for the next valid word)",
                    "not generated (outcome left open by the statement): a damaged LCSTART, a valid LCSTART directly after LCSTART, command "
                    "words with non-zero reserved bits and a valid CRC-5"],
    "rule": "6-22 commands per run over all 16 commands x 16 subtypes (first command of run i is (i>>4)&15, i&15), pulse or held generate, "
            "ready stall patterns, per-command wire faults (lcmd_mismatch, lcmd_crc, ctrl symbols), invalid/ghost-word gaps, other traffic, raw detector-only commands",
}
TIERS = {"quick": {"runs": 24000, "wall": 70}, "thorough": {"runs": 100000, "wall": 900}}


# ------------------------------------------------------------------------------------------------
def _traffic(rng):
    k = rng.choice(["idle", "idle", "data", "header", "junkk", "dppend"])
    if k == "idle":
        return [[0, 0, 1]] * rng.randint(1, 4)
    if k == "data":
        return [[rng.getrandbits(32), 0, 1] for _ in range(rng.randint(1, 3))]
    if k == "header":
        ws = L.header_words(rng.getrandbits(32), rng.getrandbits(32), rng.getrandbits(32), seq=rng.getrandbits(3))
        return [[d, c, 1] for d, c in ws]
    if k == "dppend":
        return [[L.DPPEND[0], 0xF, 1]]
    # a word with some K symbols that is not LCSTART
    return [[L.word(rng.choice([L.SKP, L.END, L.EDB, L.SLC]), L.SLC, rng.choice([L.SLC, L.SHP]), rng.choice([L.EPF, L.SLC])) ^ 0x100,
             rng.choice([0xF, 0x7, 0xE, 0x1]), 1]]


def _fault(rng, cmd, sub):
    """ -> (kind, xor_data, ctrl) applied to the command word on the wire; vetted with the reference model so the
    expected outcome is unambiguous. """
    good = L.lcw(cmd, sub)
    for _ in range(20):
        kind = rng.choice(["lcmd_mismatch", "lcmd_mismatch", "lcmd_crc", "lcmd_crc", "ctrl", "ctrl_and_damage"])
        if kind == "lcmd_mismatch":
            bits = rng.sample(range(16), rng.choice([1, 1, 2, 3]))
            x = sum(1 << b for b in bits) << (16 * rng.getrandbits(1))
            return kind, x, 0
        if kind == "lcmd_crc":
            bits = rng.sample(range(16), rng.choice([1, 1, 2, 3, 4]))
            x16 = sum(1 << b for b in bits)
            new = good ^ x16
            p = L.parse_lcw_word(new | (new << 16), 0)
            if p is not None and p["reserved"] != 0:
                continue                      # valid CRC with reserved bits set: outcome not fixed by the statement
            return kind, x16 | (x16 << 16), 0
        if kind == "ctrl":
            return kind, 0, rng.choice([1, 2, 4, 8, 3, 0xF, 0xA])
        return "ctrl", 1 << rng.randrange(32), rng.choice([1, 2, 4, 8])
    return "ctrl", 0, 1


def gen(rng, tier, index):
    nops = rng.randint(6, 14 if tier == "quick" else 22)
    fault_free = rng.random() < 0.15
    ready_kind = rng.choice(["always", "always", "half", "rand", "sparse"])
    if ready_kind == "always":
        ready = [1]
    elif ready_kind == "half":
        ready = [1, 0]
    elif ready_kind == "sparse":
        ready = [1] + [0] * rng.randint(2, 6)
    else:
        ready = [int(rng.random() < 0.6) for _ in range(rng.randint(5, 23))]
        ready[0] = 1
    ops = []
    for i in range(nops):
        if i == 0:
            cmd, sub = (index >> 4) & 15, index & 15
        else:
            cmd, sub = rng.getrandbits(4), rng.getrandbits(4)
        if rng.random() < 0.15:
            # detector-only raw command (reference-built), possibly damaged
            op = {"op": "raw", "cmd": cmd, "sub": sub, "pre": _traffic(rng) if rng.random() < 0.5 else []}
        else:
            op = {"op": "cmd", "cmd": cmd, "sub": sub, "mode": rng.choice(["pulse", "hold", "hold"]),
                  "gap": rng.choice([0, 0, 0, 1, 2, 5]), "wiggle": int(rng.random() < 0.4),
                  "pre": _traffic(rng) if rng.random() < 0.35 else []}
        if not fault_free:
            if rng.random() < 0.3:
                k, x, c = _fault(rng, cmd, sub)
                op["fault"] = {"kind": k, "xor": x, "ctrl": c}
            if rng.random() < 0.3:
                n = rng.randint(1, 4)
                ghost = rng.random() < 0.5
                w = L.lcw(rng.getrandbits(4), rng.getrandbits(4))
                op["wgap"] = [[(w | (w << 16)) if ghost else rng.choice([0, rng.getrandbits(32), L.LCSTART[0]]),
                               rng.choice([0, 0, 0xF]) if not ghost else 0, 0] for _ in range(n)]
        ops.append(op)
    return {"engine": ENGINE, "config": {"ready": ready, "idle_valid": rng.choice([1, 1, 0])}, "ops": ops}


# ------------------------------------------------------------------------------------------------
def _bench():
    def factory():
        from amaranth import Module, Elaboratable
        from luna.gateware.usb.usb3.link.command import LinkCommandGenerator, LinkCommandDetector

        class Pair(Elaboratable):
            def __init__(self):
                self.g = LinkCommandGenerator()
                self.d = LinkCommandDetector()

            def elaborate(self, platform):
                m = Module()
                m.submodules.g = self.g
                m.submodules.d = self.d
                return m

        dut = Pair()
        g, d = dut.g, dut.d
        ins = {"generate": g.generate, "command": g.command, "subtype": g.subtype, "src_ready": g.source.ready,
               "sink_valid": d.sink.valid, "sink_data": d.sink.data, "sink_ctrl": d.sink.ctrl}
        outs = {"src_valid": g.source.valid, "src_data": g.source.data, "src_ctrl": g.source.ctrl, "done": g.done,
                "new_command": d.new_command, "det_command": d.command, "det_class": d.command_class,
                "det_type": d.command_type, "det_subtype": d.subtype}
        return make_bench(dut, clocks={"ss": 1 / 125e6}, main="ss", ins=ins, outs=outs)
    return cached_bench(("c35",), factory)


class _Actor:
    """ Generator driver + PHY ready + wire pipe with fault injection + detector feeder + monitors. """

    def __init__(self, scn, viol, probes, faults):
        self.ops = scn["ops"]
        self.cfg = scn["config"]
        self.ready = L.Pattern(self.cfg["ready"])
        self.viol, self.probes, self.faults = viol, probes, faults
        self.i = 0                  # op being driven on the generator
        self.phase = "start"        # start | wait_done | gap
        self.gap_left = 0
        self.cur = None
        self.gen_pins = {"generate": 0, "command": 0, "subtype": 0}
        self.ready_now = 1
        self.wire = []              # accepted generator words: (t, data, ctrl)
        self.done_cycles = []
        self.txq = []               # detector feed FIFO: [data, ctrl, valid, tag]
        self.fed = []               # (t, data, ctrl, valid)
        self.strobes = []           # (t, command, class, type, subtype)
        self.cmd_ops = [k for k, op in enumerate(self.ops) if op["op"] == "cmd"]
        self.n_wire_cmd = 0
        self.start_cycle = {}
        self.finished_at = None
        self.stall_hdr = self.stall_cmd = 0
        self.dead = False
        self.busy_since = None
        self.ready_cycles_busy = 0
        self.last_fed = 0

    # ---- helpers ----
    def _queue_raw(self, op):
        for w in op.get("pre", []):
            self.txq.append(list(w) + ["traffic"])
        self.txq.append([L.LCSTART[0], 0xF, 1, "raw"])
        self._queue_cmd_word(op, L.link_command(op["cmd"], op["sub"])[1][0], 0, "raw")

    def _queue_cmd_word(self, op, data, ctrl, tag):
        for w in op.get("wgap", []):
            self.txq.append(list(w) + ["gap"])
        f = op.get("fault")
        if f:
            data ^= f["xor"]
            ctrl |= f["ctrl"]
            self.faults[f["kind"]] = self.faults.get(f["kind"], 0) + 1
        self.txq.append([data, ctrl, 1, tag])

    def _advance(self, t):
        """ moves to the next generator op, injecting raw detector-only ops on the way """
        while self.i < len(self.ops) and self.ops[self.i]["op"] == "raw":
            self._queue_raw(self.ops[self.i])
            self.probes["raw_commands"] += 1
            self.i += 1
        if self.i >= len(self.ops):
            self.cur = None
            self.gen_pins = {"generate": 0}
            if self.finished_at is None:
                self.finished_at = t
            return
        op = self.ops[self.i]
        self.cur = op
        self.gen_pins = {"generate": 1, "command": op["cmd"], "subtype": op["sub"]}
        self.phase = "issued"
        self.start_cycle[self.i] = t
        self.busy_since = t
        self.ready_cycles_busy = 0

    def drive(self, t):
        if self.phase == "start":
            if t >= 2:
                self._advance(t)
                if self.cur is None:
                    self.phase = "finished"
        elif self.phase == "issued":
            # the cycle after the request was sampled
            op = self.cur
            if op["mode"] == "pulse":
                self.gen_pins = {"generate": 0}
                if op["wiggle"]:
                    self.gen_pins.update({"command": (op["cmd"] + 5) & 15, "subtype": (op["sub"] + 9) & 15})
                    self.probes["inputs_changed_mid_command"] += 1
            elif op["wiggle"]:
                self.gen_pins = {"generate": 1, "command": (op["cmd"] ^ 0xA) & 15, "subtype": (op["sub"] ^ 0x5) & 15}
                self.probes["inputs_changed_mid_command"] += 1
            self.phase = "wait_done"
        elif self.phase == "after_done":
            op = self.cur
            self.i += 1
            if op["gap"] == 0 and self.i < len(self.ops) and self.ops[self.i]["op"] == "cmd":
                if op["mode"] == "hold":
                    self.probes["generate_held_back_to_back"] += 1
                self._advance(t)
            else:
                self.gen_pins = {"generate": 0}
                self.gap_left = op["gap"]
                self.phase = "gap"
        elif self.phase == "gap":
            if self.gap_left <= 0:
                self._advance(t)
                if self.cur is None:
                    self.phase = "finished"
            else:
                self.gap_left -= 1
        d = dict(self.gen_pins)
        self.ready_now = self.ready.at(t)
        d["src_ready"] = self.ready_now
        if self.txq:
            data, ctrl, valid, tag = self.txq.pop(0)
            self.last_fed = t
        else:
            data, ctrl, valid = 0, 0, self.cfg["idle_valid"]
        self.fed.append((t, data, ctrl, valid))
        d.update({"sink_valid": valid, "sink_data": data, "sink_ctrl": ctrl})
        return d

    def observe(self, t, o):
        if o["new_command"]:
            self.strobes.append((t, o["det_command"], o["det_class"], o["det_type"], o["det_subtype"]))
        if o["done"]:
            self.done_cycles.append(t)
        if o["src_valid"] and not self.ready_now:
            if len(self.wire) % 2 == 0:
                self.stall_hdr += 1
            else:
                self.stall_cmd += 1
        if self.phase in ("issued", "wait_done") and self.ready_now:
            self.ready_cycles_busy += 1
            if self.ready_cycles_busy > 40 and not self.dead:
                self.viol.add("C35.progress", t, f"command {self.cur['cmd']}/{self.cur['sub']} requested at cycle {self.busy_since} "
                              f"not complete after 40 cycles with the PHY ready", mode=self.cur["mode"])
                self.dead = True
                return True
        if o["src_valid"] and self.ready_now:
            data, ctrl = o["src_data"], o["src_ctrl"]
            self.wire.append((t, data, ctrl, o["done"]))
            # pipe into the detector
            k = len(self.wire) - 1
            opi = self.cmd_ops[k // 2] if k // 2 < len(self.cmd_ops) else None
            op = self.ops[opi] if opi is not None else {}
            if k % 2 == 0:
                for w in op.get("pre", []):
                    self.txq.append(list(w) + ["traffic"])
                self.txq.append([data, ctrl, 1, "wire"])
            else:
                self._queue_cmd_word(op, data, ctrl, "wire")
        if o["done"] and self.phase in ("issued", "wait_done"):
            self.phase = "after_done"
        if self.phase == "finished" and not self.txq and self.finished_at is not None and t > max(self.finished_at, self.last_fed) + 6:
            return True
        return False


def _expected_detections(fed):
    """ reference parse of the stream fed to the detector: [(t_word, cmd, sub, follows_immediately)] """
    out = []
    armed = False
    last_t = None
    for t, data, ctrl, valid in fed:
        if not valid:
            continue
        if armed:
            p = L.parse_lcw_word(data, ctrl)
            if p is not None:
                out.append((t, p["cmd"], p["sub"]))
            armed = False
            if (data, ctrl) == L.LCSTART:
                raise RuntimeError("generator produced LCSTART directly after LCSTART (outcome left open; must not be generated)")
        elif (data, ctrl) == L.LCSTART:
            armed = True
    return out


def run(scn):
    bench = _bench()
    viol = Violations()
    probes = {p: 0 for p in PROBES}
    faults = {}
    a = _Actor(scn, viol, probes, faults)
    ops = scn["ops"]
    rlen = len(scn["config"]["ready"])
    max_cycles = 60 + sum(30 + 8 * rlen + len(op.get("pre", [])) + len(op.get("wgap", [])) + op.get("gap", 0) for op in ops)
    log = bench.run([a], max_cycles)
    if not viol and a.phase != "finished":
        raise RuntimeError(f"script did not finish within {max_cycles} cycles (phase {a.phase}, op {a.i}/{len(ops)})")

    # ---- wire oracle ----
    if not viol:
        cmd_ops = [ops[k] for k in a.cmd_ops]
        exp = []
        for op in cmd_ops:
            exp += L.link_command(op["cmd"], op["sub"])
        got = [(d, c) for _, d, c, _ in a.wire]
        for k in range(max(len(exp), len(got))):
            e = exp[k] if k < len(exp) else None
            g = got[k] if k < len(got) else None
            if e != g:
                op = cmd_ops[k // 2] if k // 2 < len(cmd_ops) else None
                t = a.wire[k][0] if k < len(a.wire) else log.cycles
                viol.add("C35.wire", t, f"accepted word #{k} is {g and (hex(g[0]), bin(g[1]))}, expected {e and (hex(e[0]), bin(e[1]))} "
                         f"({'LCSTART' if k % 2 == 0 else 'command word'} of command {op and (op['cmd'], op['sub'])})",
                         word="lcstart" if k % 2 == 0 else "command", mode=op["mode"] if op else "none",
                         wiggle=bool(op and op["wiggle"]), stalled=rlen > 1)
                break
    if not viol:
        exp_done = [t for k, (t, _, _, _) in enumerate(a.wire) if k % 2 == 1]
        if a.done_cycles != exp_done:
            extra = sorted(set(a.done_cycles) - set(exp_done))
            missing = sorted(set(exp_done) - set(a.done_cycles))
            viol.add("C35.done", (extra + missing)[0], f"done high in cycles {a.done_cycles[:12]}, command words accepted in {exp_done[:12]}",
                     extra=bool(extra), missing=bool(missing))

    # ---- detector oracle ----
    exp_det = _expected_detections(a.fed)
    if not viol:
        st = a.strobes
        offs = set()
        for k in range(max(len(exp_det), len(st))):
            e = exp_det[k] if k < len(exp_det) else None
            s = st[k] if k < len(st) else None
            nxt = exp_det[k + 1][0] if k + 1 < len(exp_det) else None
            bad = None
            if e is None:
                bad = ("spurious", s[0], f"new_command at cycle {s[0]} (command {s[1]} subtype {s[4]}) but no intact command was fed")
            elif s is None or not (0 <= s[0] - e[0] <= 4):
                # decide between "missed" and "spurious" by time order
                if s is not None and s[0] < e[0]:
                    bad = ("spurious", s[0], f"new_command at cycle {s[0]} (command {s[1]} subtype {s[4]}) not caused by an intact command "
                           f"(next intact command word is fed at cycle {e[0]})")
                else:
                    bad = ("missed", e[0], f"intact command {L.lcmd_name(e[1], e[2])} fed at cycle {e[0]}: no new_command within 4 cycles "
                           f"(next strobe: {s and s[0]})")
            else:
                offs.add(s[0] - e[0])
                if (s[1], s[4]) != (e[1], e[2]) or s[2] != (e[1] >> 2) or s[3] != (e[1] & 3):
                    viol.add("C35.fields", s[0], f"detector reports command {s[1]} class {s[2]} type {s[3]} subtype {s[4]}; fed command "
                             f"{e[1]} (class {e[1] >> 2} type {e[1] & 3}) subtype {e[2]}")
                    break
            if bad:
                # classify what preceded: find the fed word at/just before the event
                ctx = _context(a.fed, bad[1])
                viol.add("C35.detect_iff_intact", bad[1], bad[2] + f"; context {ctx}", kind=bad[0])
                break
        if not viol and len(offs) > 1:
            viol.add("C35.detect_iff_intact", st[0][0], f"new_command latency is not consistent within the run: offsets {sorted(offs)}",
                     kind="latency")

    # ---- probes ----
    probes["gen_ready_stall_in_header"] += a.stall_hdr
    probes["gen_ready_stall_in_command"] += a.stall_cmd
    prev_valid_t = None
    armed = False
    for t, data, ctrl, valid in a.fed:
        if armed and not valid:
            probes["det_gap_before_command_word"] += 1
            if L.parse_lcw_word(data, ctrl) is not None:
                probes["det_ghost_word_in_gap"] += 1
        if valid:
            if armed:
                armed = False
            elif (data, ctrl) == L.LCSTART:
                armed = True
    for k, op in enumerate(ops):
        f = op.get("fault")
        if f:
            good = L.lcw(op["cmd"], op["sub"])
            new = (good | (good << 16)) ^ f["xor"]
            p = L.parse_lcw_word(new, f["ctrl"])
            if f["kind"] == "lcmd_mismatch":
                probes["det_mismatch"] += 1
            elif f["kind"] == "lcmd_crc":
                probes["det_crc"] += 1
                if p is not None:
                    probes["det_crc_valid_other_command"] += 1
            else:
                probes["det_ctrl"] += 1
    ts = [e[0] for e in exp_det]
    probes["det_back_to_back"] += sum(1 for x, y in zip(ts, ts[1:]) if y - x == 2)
    faults["ready_stall"] = a.stall_hdr + a.stall_cmd
    faults["invalid_word_gap"] = probes["det_gap_before_command_word"]
    outcome = ("det" if exp_det else "nodet", "rej" if any(op.get("fault") for op in ops) else "clean")
    sig = hashlib.blake2b(repr((sorted(log.fsm_vectors), sorted(k for k, v in faults.items() if v), outcome,
                                sorted(set((op["cmd"]) for op in ops)))).encode(), digest_size=8).hexdigest()
    return {"violations": viol.items, "cycles": log.cycles, "faults": faults, "probes": probes, "sig": sig,
            "nontrivial": bool(a.wire) and bool(exp_det), "digest": log.digest, "fsm": len(log.fsm_vectors)}


def _context(fed, t):
    ws = [(tt, hex(d), c, v) for tt, d, c, v in fed if t - 4 <= tt <= t]
    return ws
