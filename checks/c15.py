"""
C15 -- isochronous IN endpoints send exactly the requested bytes per frame.

DUT: the complete USBDevice (V1 / V2 timing) with a standard control endpoint, a bulk IN endpoint (ep 1, never has data:
NAKs) and USBIsochronousStreamInEndpoint on ep 4 (max packet size 1..64).
Per frame the host sends a SOF and 0..5 IN tokens at literal times, mixed with tokens for other endpoints / devices;
bytes_in_frame (0..3*mps) is put on the pin either just before the SOF or early (during the previous frame, well after
that frame's SOF); the producer follows a literal valid pattern (so zero fill happens) and obeys the stream contract;
the PHY stalls tx_ready per a literal pattern.
Oracle: per frame, packet sizes / PIDs / ZLPs from the statement; payload == the bytes the stream handed over
(ready cycles: payload if valid else 0), and the stream is advanced only for bytes that are sent.
"""

import hashlib
import random

from dsim.kernel import Violations
from models.usb2_wire import gen_idle_data
from models import usb2
from models.usb2 import UTMIHost, token_packet, data_packet, sof_packet, handshake_packet
from engines.usb2_device import device_bench, IDLE_INIT

PROPERTY = "C15"
ENGINE = "usb2_device"
CLOCK_HZ = 60e6
RULES = {
    "C15.frame_bytes": "the k-th IN token of a frame is answered with the next min(mps, bytes left) bytes of the frame; every payload "
                       "byte is the byte the stream handed over in that cycle (0 if the stream was not valid); the stream is "
                       "advanced only by bytes that are sent",
    "C15.pid_sequence": "data packets of a frame needing n packets carry DATA(n-1) .. DATA0 in this order",
    "C15.zlp_when_done": "an IN token in a frame with nothing (left) to send is answered with a zero-length data packet",
}
PROBES = ["three_packet_frame", "two_packet_frame", "zero_byte_frame", "extra_token_after_done", "frame_cut_short_by_sof",
          "zero_filled_bytes", "partly_zero_filled_packet", "bytes_set_early", "tx_stalled_packet", "exact_multiple_of_mps",
          "extra_zlp_with_mdata_pid", "other_traffic_in_frame"]
META = {
    "components_real": ["USBDevice", "USBIsochronousStreamInEndpoint", "USBDataPacketGenerator", "USBDataPacketCRC", "USBTokenDetector",
                        "USBInterpacketTimer", "USBEndpointMultiplexer", "UTMIInterfaceMultiplexer", "USBStreamInEndpoint (ep 1)"],
    "components_stubbed": ["UTMI PHY + host (models.usb2.UTMIHost)", "stream producer with a literal valid pattern (holds valid+payload "
                           "until accepted)", "bytes_in_frame driver"],
    "assumptions": ["legal UTMI / legal host (waits for the answer or the bus timeout before its next packet)",
                    "a frame is the interval between two well-formed SOFs (no corrupted SOFs in this check)",
                    "bytes_in_frame for a frame is the pin value at that frame's SOF (documented: latched at the start of each frame); "
                    "it is stable from >= 1 cycle before the SOF starts until >= 8 cycles after the SOF ends",
                    "the data PID of a surplus ZLP is not specified by the statement and not checked (reported as a probe)",
                    "the producer's payload bytes are never 0, so zero fill is distinguishable"],
    "rule": "3-12 frames, each: bytes_in_frame in 0..3*mps (biased to multiples of mps and +-1), 0-5 IN tokens with literal gaps, "
            "optional IN tokens to another endpoint / device in between; producer valid pattern and tx_ready pattern per run; mps "
            "and variant fixed per group of 8 scenario indices",
}
TIERS = {"quick": {"runs": 1600, "wall": 70}, "thorough": {"runs": 16000, "wall": 900}}

EP = 4
MPS = [1, 2, 5, 8, 8, 16, 16, 64]


def _bench_cfg(index):
    r = random.Random((index // 8 * 69069 + 5) % (1 << 32))
    return {"variant": r.choice(["V1", "V2"]), "mps": r.choice(MPS)}


def _dev_cfg(c):
    return {"variant": c["variant"], "spy": False,
            "endpoints": [{"kind": "stream_in", "ep": 1, "mps": 8}, {"kind": "iso_in", "ep": EP, "mps": c["mps"]}]}


def gen(rng, tier, index):
    bc = _bench_cfg(index)
    mps = bc["mps"]
    bit = 5 if bc["variant"] == "V2" else 1
    cfg = dict(bc)
    cfg.update({
        "byte_period": rng.choice([1, 1, 2, 3]),
        "pre": rng.choice([1, 1, 2]),
        "post": rng.choice([0, 0, 1]),
        "txready": rng.choice(["always", "always", ["every", 2], ["every", 3],
                               ["list", [rng.getrandbits(1) | (i == 0) for i in range(rng.choice([3, 5, 7]))]]]),
    })
    style = rng.choice(["always", "always", "never", "gappy", "gappy", "bursty"])
    if style == "always":
        segs = [[50, 1]]
    elif style == "never":
        segs = [[50, 0]]
    elif style == "gappy":
        segs = [[rng.randint(1, 9), rng.choice([0, 1, 1, 2, 3])] for _ in range(rng.randint(2, 8))]
    else:
        segs = [[rng.randint(1, 4 * mps + 20), rng.choice([0, 1])] for _ in range(rng.randint(2, 6))]
    cfg["producer"] = segs
    nframes = rng.randint(3, 8 if tier == "quick" else 12)
    frame_no = rng.getrandbits(11)
    p_other = rng.choice([0.0, 0.0, 0.15, 0.3])
    ops = []
    for _ in range(nframes):
        frame_no = (frame_no + rng.choice([0, 1, 1, 1, 2, 5])) & 0x7FF
        b = rng.choice([0, 1, mps - 1, mps, mps + 1, 2 * mps - 1, 2 * mps, 2 * mps + 1, 3 * mps - 1, 3 * mps,
                        rng.randint(0, 3 * mps), rng.randint(0, 3 * mps)])
        b = max(0, min(3 * mps, b))
        needed = (b + mps - 1) // mps
        ntok = rng.choice([needed, needed, needed, needed + 1, needed + 2, max(0, needed - 1), rng.randint(0, 5)])
        tokens = []
        for _ in range(min(ntok, 5)):
            if rng.random() < p_other:
                tokens.append({"kind": rng.choice(["in_ep1", "foreign_in", "foreign_out"]), "gap": 2 * bit + 1 + rng.choice([0, 2, 9]),
                               "addr": rng.randint(1, 127)})
            tokens.append({"kind": "in", "gap": 2 * bit + 1 + rng.choice([0, 0, 1, 3, 10, 40])})
        ops.append({"op": "frame", "sof": frame_no, "bytes": b, "set_at": rng.choice(["just_before", "just_before", "early"]),
                    "set_lead": rng.choice([1, 1, 2, 6]), "early_pos": rng.choice(["start", "end"]),
                    "sof_gap": 2 * bit + 1 + rng.choice([0, 0, 2, 8, 30]), "tokens": tokens})
    cfg["idle_data"] = gen_idle_data(rng)
    return {"engine": ENGINE, "config": cfg, "ops": ops}


# ------------------------------------------------------------------------------------------------
class _Producer:
    def __init__(self, segs, ep):
        self.segs = segs
        self.total = sum(s[0] for s in segs)
        self.p = f"isoin{ep}_"
        self.count = 0              # bytes handed over so far
        self.holding = False
        self.valid = 0
        self.events = []            # (t, byte handed to the endpoint: payload if valid else 0, was_valid)

    def _bit(self, t):
        x = t % self.total
        for n, mode in self.segs:
            if x < n:
                return 0 if mode == 0 else (1 if mode == 1 else (1 if x % mode == 0 else 0))
            x -= n
        return 0

    def drive(self, t):
        self.valid = 1 if self.holding else self._bit(t)
        return {self.p + "valid": self.valid, self.p + "payload": 1 + self.count % 255}

    def observe(self, t, o):
        if o[self.p + "ready"]:
            self.events.append((t, (1 + self.count % 255) if self.valid else 0, self.valid))
            if self.valid:
                self.count += 1
            self.holding = False
        else:
            self.holding = bool(self.valid)


def run(scn):
    cfg = scn["config"]
    variant, mps = cfg["variant"], cfg["mps"]
    bench = device_bench(_dev_cfg(cfg))
    init = dict(IDLE_INIT)
    bit = 5 if variant == "V2" else 1
    timeout = 18 * bit + 4
    ops = scn["ops"]
    viol = Violations()
    probes = {p: 0 for p in PROBES}
    faults = {}
    frames = []
    bpin = f"isoin{EP}_bytes_in_frame"
    prod = _Producer(cfg["producer"], EP)

    def fault(k):
        faults[k] = faults.get(k, 0) + 1

    def script(h):
        yield from h.idle(3)
        fops = [op for op in ops if op["op"] == "frame"]
        fi = -1
        preset = False
        for op in ops:
            if op["op"] == "idle":
                yield from h.idle(op["n"])
                continue
            fi += 1
            nxt = fops[fi + 1] if fi + 1 < len(fops) else None
            if not preset:
                h.set_pins(**{bpin: op["bytes"]})
                yield from h.idle(op["set_lead"])
            else:
                probes["bytes_set_early"] += 1
            preset = False
            _, t_sof_end = yield from h.send(sof_packet(op["sof"]), info="sof")
            rec = {"bytes": op["bytes"], "t_sof_end": t_sof_end, "tokens": []}
            frames.append(rec)
            yield from h.idle(op["sof_gap"])
            early = nxt is not None and nxt["set_at"] == "early"
            if early and op["early_pos"] == "start":
                yield from h.idle(8)
                h.set_pins(**{bpin: nxt["bytes"]})
                preset = True
            for tk in op["tokens"]:
                yield from h.idle(tk["gap"])
                k = tk["kind"]
                if k == "in":
                    _, t_end = yield from h.send(token_packet("IN", 0, EP), info="in")
                    r = yield from h.recv(timeout)
                    rec["tokens"].append({"t_end": t_end, "resp": r})
                    if r is not None:
                        yield from h.idle(2 * bit)
                else:
                    probes["other_traffic_in_frame"] += 1
                    fault("interleave_" + k)
                    if k == "in_ep1":
                        yield from h.send(token_packet("IN", 0, 1), info="in_ep1")
                        yield from h.recv(timeout)
                        yield from h.idle(2 * bit)
                    elif k == "foreign_in":
                        yield from h.send(token_packet("IN", tk["addr"], EP), info="foreign_in")
                        yield from h.idle(12 * bit)
                    else:
                        yield from h.send(token_packet("OUT", tk["addr"], EP), info="foreign_out")
                        yield from h.idle(2 * bit)
                        yield from h.send(data_packet("DATA0", b"\x01\x02\x03"), info="foreign_data")
                        yield from h.idle(2 * bit + 3)
            if early and not preset:
                yield from h.idle(8)
                h.set_pins(**{bpin: nxt["bytes"]})
                preset = True
                yield from h.idle(1)
            yield from h.idle(2 * bit + 1)
        yield from h.idle(10)

    host = UTMIHost(script, idle_data=cfg.get("idle_data"), byte_period=cfg["byte_period"], pre=cfg["pre"], post=cfg["post"],
                    txready=(cfg["txready"] if cfg["txready"] == "always" else tuple(cfg["txready"])))
    ntok = sum(len(op.get("tokens", [])) for op in ops)
    max_cycles = 600 + len(ops) * (80 + 12 * bit) + ntok * ((mps + 6) * 8 + 2 * timeout + 60 + 30 * bit) + sum(op.get("n", 0) for op in ops)
    log = bench.run([host, prod], max_cycles, init=init)
    if not host._done:
        raise RuntimeError("host script did not finish within the cycle cap")
    if host.tx_during_rx:
        raise RuntimeError("harness: device transmitted while the host was sending (host model not legal here)")
    if cfg["txready"] != "always":
        fault("txready_stall")
    if any(m != 1 for _, m in cfg["producer"]):
        fault("producer_gap")

    # ---- oracle -----------------------------------------------------------------------------------------------------
    events = prod.events
    ev_used = [False] * len(events)
    shape = {"variant": variant}
    outcomes = set()
    ok = True
    for fno, fr in enumerate(frames):
        if not ok:
            break
        B = fr["bytes"]
        needed = (B + mps - 1) // mps
        if needed == 3:
            probes["three_packet_frame"] += 1
        elif needed == 2:
            probes["two_packet_frame"] += 1
        elif needed == 0:
            probes["zero_byte_frame"] += 1
        if B and B % mps == 0:
            probes["exact_multiple_of_mps"] += 1
        if len(fr["tokens"]) < needed:
            probes["frame_cut_short_by_sof"] += 1
        for j, tk in enumerate(fr["tokens"]):
            r = tk["resp"]
            where = f"frame #{fno} (bytes_in_frame={B}, mps={mps}), IN token #{j} ending at cycle {tk['t_end']}"
            want_len = min(mps, B - j * mps) if j < needed else 0
            rule = "C15.frame_bytes" if j < needed else "C15.zlp_when_done"
            if r is None:
                viol.add(rule, tk["t_end"], f"no answer within {timeout} cycles to {where}; expected a {want_len}-byte data packet",
                         kind="no_answer", position="data" if j < needed else "surplus", **shape)
                ok = False
                break
            name, payload = usb2.classify_tx(r["data"])
            if name not in usb2.DATA_PIDS:
                viol.add(rule, r["start"], f"answer {r['data'].hex()} to {where} is not a well-formed data packet ({name}: {payload})",
                         kind="malformed", position="data" if j < needed else "surplus", **shape)
                ok = False
                break
            if r["stalls"]:
                probes["tx_stalled_packet"] += 1
            evs = [k for k in range(len(events)) if r["start"] <= events[k][0] <= r["end"]]
            for k in evs:
                ev_used[k] = True
            handed = bytes(events[k][1] for k in evs)
            if j >= needed:
                probes["extra_token_after_done"] += 1 if needed else 0
                outcomes.add("zlp")
                if name == "MDATA":
                    probes["extra_zlp_with_mdata_pid"] += 1
                if len(payload) != 0 or handed:
                    viol.add("C15.zlp_when_done", r["start"], f"{where}: nothing left to send, but the answer is {name} with "
                             f"{len(payload)} byte(s) {payload.hex()} ({len(handed)} byte(s) taken from the stream)", kind="not_zlp",
                             position="surplus", **shape)
                    ok = False
                    break
                continue
            outcomes.add(f"data{needed - 1 - j}of{needed}")
            if len(payload) != want_len:
                viol.add("C15.frame_bytes", r["start"], f"{where}: answer {name} has {len(payload)} payload byte(s), expected {want_len}",
                         kind="wrong_length", position="data", **shape)
                ok = False
                break
            if handed != payload:
                viol.add("C15.frame_bytes", r["start"], f"{where}: payload {payload.hex()} differs from the bytes the stream handed over "
                         f"while the packet was sent ({handed.hex()}; 00 = stream not valid in that cycle)", kind="wrong_bytes",
                         position="data", **shape)
                ok = False
                break
            nz = sum(1 for k in evs if not events[k][2])
            probes["zero_filled_bytes"] += nz
            if 0 < nz < len(evs):
                probes["partly_zero_filled_packet"] += 1
            want_pid = f"DATA{needed - 1 - j}"
            if name != want_pid:
                viol.add("C15.pid_sequence", r["start"], f"{where}: answer carries {name}, expected {want_pid} (packet {j + 1} of {needed})",
                         kind="wrong_pid", position="data", **shape)
                ok = False
                break
    if ok and not viol:
        for k, used in enumerate(ev_used):
            if not used:
                viol.add("C15.frame_bytes", events[k][0], f"the stream was advanced at cycle {events[k][0]} (ready high, valid="
                         f"{events[k][2]}) outside any data packet: that byte is never sent", kind="byte_taken_not_sent",
                         position="n/a", **shape)
                break

    sig = hashlib.blake2b(repr((variant, mps, sorted(log.fsm_vectors), sorted(faults), sorted(outcomes))).encode(),
                          digest_size=8).hexdigest()
    nontrivial = sum(len(f["tokens"]) for f in frames) >= 2 and any(f["bytes"] > mps for f in frames)
    return {"violations": viol.items, "cycles": log.cycles, "faults": faults, "probes": probes, "sig": sig,
            "nontrivial": nontrivial, "digest": log.digest, "fsm": len(log.fsm_vectors)}
