"""
C04 -- USB2 handshakes are generated and detected exactly.

Two real DUTs (one per scenario, config["part"]):
  "gen": luna.gateware.usb.usb2.packet.USBHandshakeGenerator -- request strobes (also while busy) against literal tx_ready
         patterns.  A request is *mandatory* if it is made while the generator is idle (tx.valid low, nothing pending);
         requests made while busy are *optional* (the statement does not say whether they are dropped or queued): they may
         produce at most one packet each, and the requester then stays quiet until the bus has been silent for 6 cycles.
  "det": luna.gateware.usb.usb2.packet.USBHandshakeDetector -- literal UTMI receive waveform; the expected strobe list is
         predicted from the bytes actually sent.
"""

import hashlib

from dsim.kernel import make_bench, cached_bench, Violations
from models import usb2
from models.usb2 import token_packet, data_packet, handshake_packet, pid_byte
from models.usb2_wire import render_rx, WaveActor, rand_timing, gen_idle_data

PROPERTY = "C04"
ENGINE = "usb2_wire"
CLOCK_HZ = 60e6
RULES = {
    "C04.gen_one_packet": "a request made while idle produces, within 4 cycles, exactly one packet of exactly one byte: the requested "
                          "ACK/NAK/STALL PID with its check nibble",
    "C04.gen_hold": "tx.valid and tx.data are held unchanged until the cycle the PHY accepts the byte (tx.ready)",
    "C04.gen_no_extra": "no packet without a request: every packet is explained by an idle request or (at most one each) by a request "
                        "made while busy",
    "C04.det_sequence": "exactly one one-cycle strobe of the right kind after each one-byte ACK/NAK/STALL/NYET packet with a valid check "
                        "nibble (within 4 cycles of its end); no strobe for longer, malformed, aborted or other packets",
}
PROBES = ["gen_request_while_busy", "gen_request_in_accept_cycle", "gen_request_right_after_accept", "gen_stalled_packet",
          "gen_long_stall", "gen_ack", "gen_nak", "gen_stall", "det_valid_handshake", "det_nyet", "det_bad_check_nibble",
          "det_handshake_pid_with_extra_bytes", "det_aborted_before_pid", "det_gap_1_cycle", "det_valid_after_bad",
          "det_other_valid_pid_one_byte"]
META = {
    "components_real": ["luna.gateware.usb.usb2.packet.USBHandshakeGenerator", "luna.gateware.usb.usb2.packet.USBHandshakeDetector"],
    "components_stubbed": ["UTMI PHY transmit side: literal tx_ready pattern", "requesting endpoint: scripted request strobes",
                           "UTMI receive side + host: literal waveform"],
    "assumptions": ["one request strobe kind per cycle (simultaneous ack+nak+stall is not defined by the statement)",
                    "legal UTMI receive side (rx_valid only while rx_active, rx_active rises >= 1 cycle before the first byte, low >= 1 "
                    "cycle between packets)",
                    "tx_ready patterns contain at least one ready cycle per period"],
    "rule": "gen: 6-30 request operations (gap after quiescence, kind, extra requests 1-12 cycles later that may land while busy / in the "
            "accept cycle / right after it) x tx_ready pattern (always, every n, literal list); det: 10-50 packets (handshakes, "
            "bad check nibbles, over-long handshakes, aborted, tokens, data, garbage) with per-packet timing",
}
TIERS = {"quick": {"runs": 60000, "wall": 70}, "thorough": {"runs": 400000, "wall": 900}}

GEN_LATENCY = 4
DET_LATENCY = 4
QUIET = 6
KINDS = ("ack", "nak", "stall")
KIND_PID = {"ack": "ACK", "nak": "NAK", "stall": "STALL"}


# ------------------------------------------------------------------------------------------------
def gen(rng, tier, index):
    part = rng.choice(["gen", "det"])
    if part == "gen":
        return _gen_generator(rng, tier)
    return _gen_detector(rng, tier)


def _gen_generator(rng, tier):
    r = rng.random()
    if r < 0.25:
        txready = "always"
    elif r < 0.45:
        txready = ["every", rng.choice([2, 3, 5, 9])]
    else:
        n = rng.randint(3, 16)
        bits = [int(rng.random() < rng.choice([0.15, 0.5, 0.8])) for _ in range(n)]
        bits[rng.randrange(n)] = 1
        txready = ["list", bits]
    busy = rng.random() < 0.85            # ~15 % of runs never request while busy
    ops = []
    for _ in range(rng.randint(6, 20 if tier == "quick" else 30)):
        op = {"gap": rng.choice([0, 0, 0, 1, 2, 3, 7]), "req": rng.choice(KINDS), "extra": []}
        if busy and rng.random() < 0.5:
            d = 0
            for _ in range(rng.choice([1, 1, 2, 3])):
                d += rng.choice([1, 1, 2, 2, 3, 4, 6, 12])
                op["extra"].append([d, rng.choice(KINDS)])
        ops.append(op)
    return {"engine": ENGINE, "config": {"part": "gen", "txready": txready}, "ops": ops}


def _gen_detector(rng, tier):
    ops = []
    slow = rng.random() < 0.1
    fault_free = rng.random() < 0.15
    for _ in range(rng.randint(10, 34 if tier == "quick" else 50)):
        op = {"op": "pkt", "idle": rng.choice([1, 1, 2, 3, 5, 9])}
        op.update(rand_timing(rng, slow))
        r = rng.random()
        if r < 0.40 or fault_free:
            raw = handshake_packet(rng.choice(usb2.HANDSHAKE_PIDS))
            what = "handshake"
        elif r < 0.52:
            raw = bytes([pid_byte(rng.choice(usb2.HANDSHAKE_PIDS)) ^ (1 << rng.randrange(8))])
            what = "bad_pid_nibble"
        elif r < 0.66:
            raw = handshake_packet(rng.choice(usb2.HANDSHAKE_PIDS)) + bytes(rng.getrandbits(8) for _ in range(rng.choice([1, 1, 2, 3])))
            what = "extend"
        elif r < 0.73:
            raw = handshake_packet(rng.choice(usb2.HANDSHAKE_PIDS))
            op["abort_at"] = 0
            what = "abort_rx"
        elif r < 0.81:
            raw = token_packet(rng.choice(["IN", "OUT", "SETUP", "PING"]), rng.randrange(128), rng.randrange(16))
            what = "token"
        elif r < 0.89:
            raw = data_packet(rng.choice(usb2.DATA_PIDS), bytes(rng.getrandbits(8) for _ in range(rng.choice([0, 1, 4]))))
            what = "data"
        elif r < 0.95:
            raw = bytes([pid_byte(rng.choice(["OUT", "IN", "SOF", "SETUP", "DATA0", "DATA1", "PING", "SPLIT", "PRE"]))])
            what = "other_pid_1_byte"
        else:
            raw = bytes(rng.getrandbits(8) for _ in range(rng.randint(1, 4)))
            what = "garbage"
        op["bytes"] = raw.hex()
        op["what"] = what
        ops.append(op)
    return {"engine": ENGINE, "config": {"part": "det", "idle_data": gen_idle_data(rng)}, "ops": ops}


# ------------------------------------------------------------------------------------------------
def _bench(part):
    def factory():
        if part == "gen":
            from luna.gateware.usb.usb2.packet import USBHandshakeGenerator
            dut = USBHandshakeGenerator()
            ins = {"ack": dut.issue_ack, "nak": dut.issue_nak, "stall": dut.issue_stall, "tx_ready": dut.tx.ready}
            outs = {"tx_valid": dut.tx.valid, "tx_data": dut.tx.data}
        else:
            from luna.gateware.interface.utmi import UTMIInterface
            from luna.gateware.usb.usb2.packet import USBHandshakeDetector
            utmi = UTMIInterface()
            dut = USBHandshakeDetector(utmi=utmi)
            ins = {"rx_data": utmi.rx_data, "rx_active": utmi.rx_active, "rx_valid": utmi.rx_valid}
            d = dut.detected
            outs = {"ack": d.ack, "nak": d.nak, "stall": d.stall, "nyet": d.nyet}
        return make_bench(dut, clocks={"usb": 1 / 60e6}, main="usb", ins=ins, outs=outs)
    return cached_bench(("c04", part), factory)


class _GenActor:
    """ requester + PHY + monitor for the generator part """

    def __init__(self, scn, viol, probes):
        self.ops = scn["ops"]
        self.txready = scn["config"]["txready"]
        self.viol = viol
        self.probes = probes
        self.classes = set()
        # requester
        self.k = 0                      # current op
        self.phase = "wait"             # wait (for quiescence) -> gap -> extras
        self.count = 0
        self.pending_extra = []         # absolute cycles
        self.done = False
        self.tail = 0
        # this cycle's drives
        self.req = None
        self.ready = 1
        # monitor
        self.inflight = None            # {"pid", "t", "started"}
        self.optional = []
        self.cur = None                 # {"t", "data", "accepted", "mandatory"}
        self.quiet = 0                  # consecutive cycles with tx.valid low
        self.last_accept = -10
        self.packets = 0
        self.mandatory = 0
        self.dead = False

    # ---- helpers ----
    def _ready_bit(self, t):
        tr = self.txready
        if tr == "always":
            return 1
        if tr[0] == "every":
            return 1 if t % tr[1] == 0 else 0
        return tr[1][t % len(tr[1])]

    def _idle(self):
        return self.inflight is None and self.cur is None and not self.optional

    def drive(self, t):
        self.ready = self._ready_bit(t)
        req = None
        if not self.done:
            op = self.ops[self.k]
            if self.phase == "wait" and self._idle():
                self.phase = "gap"
                self.count = op["gap"]
            if self.phase == "gap":
                if self.count == 0:
                    req = op["req"]
                    self.pending_extra = [[t + d, kind] for d, kind in op["extra"]]
                    self.phase = "extras"
                else:
                    self.count -= 1
            elif self.phase == "extras":
                if self.pending_extra and self.pending_extra[0][0] == t:
                    req = self.pending_extra.pop(0)[1]
            if self.phase == "extras" and not self.pending_extra:
                # after the last request of this op go on to the next op (which first waits for quiescence)
                self.k += 1
                self.phase = "wait"
                if self.k >= len(self.ops):
                    self.done = True
        self.req = req
        d = {"ack": 0, "nak": 0, "stall": 0, "tx_ready": self.ready}
        if req:
            d[req] = 1
        return d

    def observe(self, t, o):
        if self.dead:
            return True
        v, data = o["tx_valid"], o["tx_data"]
        txr = "always" if self.txready == "always" else self.txready[0]
        if v:
            self.quiet = 0
            if self.cur is None:
                # a packet starts
                self.packets += 1
                if self.inflight is not None and not self.inflight["started"]:
                    self.inflight["started"] = True
                    want = pid_byte(KIND_PID[self.inflight["pid"]])
                    self.cur = {"t": t, "data": data, "accepted": 0, "mandatory": True}
                    if data != want:
                        self._fail("C04.gen_one_packet", t, f"requested {self.inflight['pid']} (PID byte {want:#04x}) in cycle {self.inflight['t']}, "
                                   f"generator presents {data:#04x}", problem="wrong_pid", txready=txr)
                else:
                    match = [k for k in self.optional if pid_byte(KIND_PID[k]) == data]
                    if match:
                        self.optional.remove(match[0])
                        self.cur = {"t": t, "data": data, "accepted": 0, "mandatory": False}
                        self.classes.add("optional_served")
                    else:
                        self._fail("C04.gen_no_extra", t, f"packet {data:#04x} starts in cycle {t} without a request "
                                   f"(requests made while busy and still unanswered: {self.optional})", problem="unrequested", txready=txr)
            else:
                if self.cur["accepted"]:
                    self._fail("C04.gen_one_packet", t, f"tx.valid still high in the cycle after the byte {self.cur['data']:#04x} was accepted: "
                               "the packet has more than one byte", problem="second_byte", txready=txr)
                elif data != self.cur["data"]:
                    self._fail("C04.gen_hold", t, f"tx.data changed from {self.cur['data']:#04x} to {data:#04x} before the byte was accepted",
                               problem="data_changed", txready=txr)
            if self.cur is not None and self.ready and not self.cur["accepted"]:
                self.cur["accepted"] = 1
                self.last_accept = t
                stall = t - self.cur["t"]
                if stall > 0:
                    self.probes["gen_stalled_packet"] += 1
                if stall >= 4:
                    self.probes["gen_long_stall"] += 1
                self.classes.add(("stall", min(stall, 3)))
        else:
            self.quiet += 1
            if self.cur is not None:
                if not self.cur["accepted"]:
                    self._fail("C04.gen_hold", t, f"tx.valid dropped in cycle {t} before the byte {self.cur['data']:#04x} (presented since cycle "
                               f"{self.cur['t']}) was accepted", problem="valid_dropped", txready=txr)
                if self.cur["mandatory"]:
                    self.inflight = None
                self.cur = None
            if self.quiet >= QUIET and self.inflight is None:
                self.optional = []
        if self.inflight is not None and not self.inflight["started"] and t - self.inflight["t"] > GEN_LATENCY:
            self._fail("C04.gen_one_packet", t, f"{self.inflight['pid']} requested while idle in cycle {self.inflight['t']}: no packet within "
                       f"{GEN_LATENCY} cycles", problem="missing", txready=txr)
        # ---- classify this cycle's request ----
        if self.req:
            self.probes["gen_" + self.req] += 1
            if self._idle():
                self.inflight = {"pid": self.req, "t": t, "started": False}
                self.mandatory += 1
                if t - self.last_accept == 1:
                    self.probes["gen_request_right_after_accept"] += 1
                    self.classes.add("right_after_accept")
            else:
                self.optional.append(self.req)
                self.probes["gen_request_while_busy"] += 1
                if self.cur is not None and self.last_accept == t:
                    self.probes["gen_request_in_accept_cycle"] += 1
                    self.classes.add("in_accept_cycle")
                self.classes.add("busy_request")
        if self.done and self._idle():
            self.tail += 1
            return self.tail > QUIET + 2
        return False

    def _fail(self, rule, t, msg, **shape):
        self.viol.add(rule, t, msg, **shape)
        self.dead = True


def _run_generator(scn):
    bench = _bench("gen")
    viol = Violations()
    probes = {p: 0 for p in PROBES}
    actor = _GenActor(scn, viol, probes)
    period = 1 if scn["config"]["txready"] == "always" else (scn["config"]["txready"][1] if scn["config"]["txready"][0] == "every"
                                                              else len(scn["config"]["txready"][1]))
    max_cycles = 200 + sum(op["gap"] + sum(d for d, _ in op["extra"][-1:]) + 4 * (period + QUIET + 4) for op in scn["ops"])
    log = bench.run([actor], max_cycles, init={"tx_ready": 1})
    if not viol and not (actor.done and actor._idle()):
        raise RuntimeError("generator script did not finish within the cycle cap")
    faults = {"request_while_busy": probes["gen_request_while_busy"], "txready_stall": probes["gen_stalled_packet"]}
    txr = "always" if scn["config"]["txready"] == "always" else scn["config"]["txready"][0]
    sig = hashlib.blake2b(repr(("gen", txr, sorted(map(repr, actor.classes)))).encode(), digest_size=8).hexdigest()
    return {"violations": viol.items, "cycles": log.cycles, "faults": faults, "probes": probes, "sig": sig,
            "nontrivial": probes["gen_request_while_busy"] > 0 or probes["gen_stalled_packet"] > 0, "digest": log.digest,
            "fsm": len(log.fsm_vectors)}


def _run_detector(scn):
    ops = scn["ops"]
    bench = _bench("det")
    wave, packets = render_rx(ops, idle_data=scn["config"].get("idle_data"))
    actor = WaveActor(wave)
    log = bench.run([actor], max_cycles=len(wave) + 4)
    S = actor.samples
    if len(S) < len(wave):
        raise RuntimeError("waveform was not played completely")
    viol = Violations()
    probes = {p: 0 for p in PROBES}
    faults = {}
    outcomes = set()
    names = ("ack", "nak", "stall", "nyet")
    strobes = [(t, n) for t, o in enumerate(S) for n in names if o[n]]
    si = 0
    first_end = packets[0]["t_end"] if packets else len(S)
    while si < len(strobes) and strobes[si][0] < first_end:
        viol.add("C04.det_sequence", strobes[si][0], f"{strobes[si][1]} strobe before any packet had ended", packet="none", problem="spurious")
        si += 1
    prev_bad = False
    for k, p in enumerate(packets):
        op = ops[p["op"]]
        sent = p["sent"]
        what = op.get("what", "?")
        if what in ("bad_pid_nibble", "extend", "abort_rx"):
            faults[what] = faults.get(what, 0) + 1
        name = usb2.pid_name(sent[0]) if len(sent) == 1 else None
        expect = name.lower() if name in usb2.HANDSHAKE_PIDS else None
        t_end = p["t_end"]
        w_end = packets[k + 1]["t_end"] if k + 1 < len(packets) else len(S)
        got = []
        while si < len(strobes) and strobes[si][0] < w_end:
            got.append(strobes[si])
            si += 1
        shape = {"packet": what, "expected": expect or "none"}
        outcomes.add(expect or ("none:" + what))
        if expect:
            probes["det_valid_handshake"] += 1
            if expect == "nyet":
                probes["det_nyet"] += 1
            if prev_bad:
                probes["det_valid_after_bad"] += 1
            if len(got) != 1 or got[0][1] != expect:
                viol.add("C04.det_sequence", t_end, f"one-byte packet {sent.hex()} ({name}) ended in cycle {t_end}: expected exactly one "
                         f"{expect} strobe cycle, observed {got}", problem="missing" if not got else "wrong_or_repeated", **shape)
            elif got[0][0] - t_end > DET_LATENCY:
                viol.add("C04.det_sequence", got[0][0], f"{expect} strobe {got[0][0] - t_end} cycles after the packet ended", problem="late", **shape)
        else:
            if what == "bad_pid_nibble":
                probes["det_bad_check_nibble"] += 1
            if len(sent) > 1 and usb2.pid_name(sent[0]) in usb2.HANDSHAKE_PIDS:
                probes["det_handshake_pid_with_extra_bytes"] += 1
            if len(sent) == 0:
                probes["det_aborted_before_pid"] += 1
            if len(sent) == 1 and usb2.pid_name(sent[0]) is not None:
                probes["det_other_valid_pid_one_byte"] += 1
            if got:
                viol.add("C04.det_sequence", got[0][0], f"packet {sent.hex()!r} ({what}) is not a one-byte handshake with a valid check nibble, "
                         f"yet {got[0][1]} was strobed in cycle {got[0][0]}", problem="spurious", **shape)
        if k + 1 < len(packets) and packets[k + 1]["t_start"] == t_end + 1:
            probes["det_gap_1_cycle"] += 1
        prev_bad = expect is None
    sig = hashlib.blake2b(repr(("det", sorted(log.fsm_vectors), sorted(outcomes))).encode(), digest_size=8).hexdigest()
    return {"violations": viol.items, "cycles": log.cycles, "faults": faults, "probes": probes, "sig": sig,
            "nontrivial": bool(faults) and probes["det_valid_handshake"] > 0, "digest": log.digest, "fsm": len(log.fsm_vectors)}


def run(scn):
    if scn["config"]["part"] == "gen":
        return _run_generator(scn)
    return _run_detector(scn)
