"""
C40 -- each received data packet is reported good or bad exactly once.

DUT: DataPacketReceiver (real), standalone.  The sink is monitor-only (no back-pressure), so the stimulus is a literal
word stream built by the reference model (models.usb3_link): data packets of every length class with optional header /
payload corruption, K symbols inside the payload, DPP aborts, not-valid words (as left by SKP removal) at every
position, and arbitrary following traffic.

Oracle (history checker over packet windows): a packet whose header is a valid data header gets exactly one verdict
strobe in [DPPSTART, last DPP word + 4 cycles], not before its last payload word; the verdict is `good` iff the CRC-32
is valid and the payload is free of K symbols / not aborted; the payload stream carried exactly the payload bytes; a
packet with a damaged header never yields `good`; no strobe outside a packet window.
"""

import hashlib

from dsim.kernel import make_bench, cached_bench, Violations
from models import usb3_link as L

PROPERTY = "C40"
ENGINE = "usb3_link"
CLOCK_HZ = 125e6
RULES = {
    "C40.once": "exactly one verdict strobe (packet_good or packet_bad, one cycle) per data packet with a valid header, after its payload",
    "C40.verdict": "the verdict is good iff the payload CRC-32 is valid (and the payload was neither aborted nor contains K symbols)",
    "C40.payload": "the payload stream carries exactly data_length valid bytes equal to the payload",
    "C40.bad_header": "a data packet whose header CRC-5 / CRC-16 / type is invalid is never reported good (at most one bad)",
    "C40.no_late_strobe": "no verdict strobe outside the window of a received data packet",
}
PROBES = ["len0", "len_mod4_0", "len_mod4_1", "len_mod4_2", "len_mod4_3", "gap_in_header", "gap_before_sdp", "gap_in_payload",
          "gap_before_crc_word", "gap_after_crc", "crc32_bad", "ctrl_in_last_payload_word", "ctrl_in_payload", "abort", "abort_zero_length",
          "hdr_crc5_bad", "hdr_crc16_bad", "packet_immediately_after", "good_packets", "crc32_bad_zero_length"]
META = {
    "components_real": ["DataPacketReceiver", "HeaderPacketCRC", "DataPacketPayloadCRC", "compute_usb_crc5"],
    "components_stubbed": ["receive path: literal word stream built by the reference model (header, DPP, link commands, idle, not-valid words)"],
    "assumptions": ["a DPP directly follows its data header (only not-valid words may sit in between)",
                    "for a damaged header both 'no report' and 'one bad report' are accepted (the statement is read either way); 'good' is not",
                    "K-symbol faults are placed on payload byte positions only (a K symbol inside the CRC bytes is not generated)",
                    "data_length <= 1024 and equal to the actual payload length"],
    "rule": "2-7 data packets per run, length 0..64 quick / ..1024 thorough covering all length-mod-4 classes; per packet: fault (hdr_crc5, hdr_crc16, "
            "not-data type, dpp_crc32, dpp_ctrl_symbol, abort) and not-valid word gaps at drawn positions (incl. before SDP, before and after the CRC word); "
            "following traffic: idle, link command, non-data header, next packet immediately",
}
TIERS = {"quick": {"runs": 2400, "wall": 70}, "thorough": {"runs": 25000, "wall": 900}}


def _traffic(rng):
    k = rng.choice(["none", "none", "idle", "idle", "lcmd", "hdr", "hdr_data_no_dpp", "gap", "data"])
    return {"kind": k, "n": rng.randint(1, 6), "a": rng.getrandbits(32), "b": rng.getrandbits(32), "c": rng.getrandbits(4), "d": rng.getrandbits(3)}


def gen(rng, tier, index):
    nops = rng.randint(2, 6 if tier == "quick" else 7)
    maxlen = rng.choice([64] * 11 + [1024]) if tier == "quick" else rng.choice([64, 64, 256, 1024])
    fault_free = rng.random() < 0.15
    gap_free = rng.random() < 0.3
    ops = []
    for i in range(nops):
        if i == 0 and maxlen == 1024 and tier == "quick":
            n = rng.choice([1024, 1024, 1023, 1022, 1021, 1020])      # the largest payloads: boundary of the length counter
        elif i == 0:
            n = index % min(maxlen + 1, 70)
        else:
            n = rng.choice([0, rng.randint(1, 9), rng.randint(1, 9), rng.randint(1, 20), rng.randint(1, maxlen)])
        payload = bytes(rng.getrandbits(8) for _ in range(n))
        op = {"op": "pkt", "payload": payload.hex(), "dw0hi": rng.getrandbits(27), "dw1lo": rng.getrandbits(16), "dw2": rng.getrandbits(32),
              "seq": rng.getrandbits(3), "hub": rng.choice([0, rng.getrandbits(3)]), "dl": int(rng.random() < 0.1), "df": int(rng.random() < 0.1),
              "after": _traffic(rng)}
        nwords = 5 + 1 + (n + 4 + 4 + 3) // 4
        if not fault_free and rng.random() < 0.45:
            k = rng.choice(["hdr_crc5", "hdr_crc16", "hdr_type", "dpp_crc32", "dpp_crc32", "dpp_crc32", "dpp_ctrl_symbol", "dpp_ctrl_symbol", "abort"])
            f = {"kind": k}
            if k == "hdr_crc5":
                f["bit"] = rng.randrange(16, 32)
            elif k == "hdr_crc16":
                f["word"], f["bit"] = rng.choice([(1, rng.randrange(5, 32)), (2, rng.randrange(0, 16)), (3, rng.randrange(32)), (4, rng.randrange(16))])
            elif k == "hdr_type":
                f["type"] = rng.choice([0, 4, 12, 24, 9])
            elif k == "dpp_crc32":
                f["bit"] = rng.randrange(8 * (n + 4))              # a bit of payload or CRC
            elif k == "dpp_ctrl_symbol":
                if n == 0:
                    f = None
                else:
                    f["byte"] = rng.choice([rng.randrange(n), n - 1, max(0, n - rng.randint(1, 4))])
                    f["symbol"] = rng.choice([None, L.END, L.EDB, L.SKP, L.SUB])
            elif k == "abort":
                f["at"] = rng.randint(0, (n + 3) // 4)            # number of complete payload words before DPPABORT
            if f:
                op["fault"] = f
        if not gap_free:
            gaps = []
            for _ in range(rng.choice([0, 1, 1, 2, 3])):
                pos = rng.choice([rng.randint(1, nwords), 5, 6, 6 + (n + 3) // 4, 6 + (n + 3) // 4, 7 + (n + 3) // 4, rng.randint(1, 5)])
                gaps.append([pos, rng.choice([1, 1, 2, 5]), rng.choice(["zero", "rand", "prev", "next", "crc"])])
            if gaps:
                op["gaps"] = gaps
        ops.append(op)
    return {"engine": ENGINE, "config": {"idle_valid": rng.choice([1, 1, 0]), "salt": rng.getrandbits(32)}, "ops": ops}


# ------------------------------------------------------------------------------------------------
def _bench():
    def factory():
        from luna.gateware.usb.usb3.link.data import DataPacketReceiver
        dut = DataPacketReceiver()
        ins = {"sink_valid": dut.sink.valid, "sink_data": dut.sink.data, "sink_ctrl": dut.sink.ctrl}
        outs = {"good": dut.packet_good, "bad": dut.packet_bad, "src_valid": dut.source.valid, "src_data": dut.source.data,
                "src_first": dut.source.first, "src_last": dut.source.last, "new_header": dut.new_header}
        return make_bench(dut, clocks={"ss": 1 / 125e6}, main="ss", ins=ins, outs=outs)
    return cached_bench(("c40",), factory)


def build_packet(op):
    """ -> (words [(data, ctrl)], info) : the packet as sent, and what the reference model expects of it. """
    payload = bytes.fromhex(op["payload"])
    n = len(payload)
    dw0 = L.HP_TYPE_DATA | (op["dw0hi"] << 5)
    dw1 = op["dw1lo"] | (n << 16)
    dw2 = op["dw2"]
    f = op.get("fault") or {}
    kind = f.get("kind")
    if kind == "hdr_type":
        dw0 = (dw0 & ~0x1F) | f["type"]
    hdr = [list(w) for w in L.header_words(dw0, dw1, dw2, op["seq"], 0, op["hub"], op["dl"], op["df"])]
    if kind == "hdr_crc5":
        hdr[4][0] ^= 1 << f["bit"]
    elif kind == "hdr_crc16":
        hdr[f["word"]][0] ^= 1 << f["bit"]
    body = bytearray(payload) + bytearray(L.crc32(payload).to_bytes(4, "little"))
    if kind == "dpp_crc32":
        body[f["bit"] // 8] ^= 1 << (f["bit"] % 8)
    syms = [(b, 0) for b in body]
    if kind == "dpp_ctrl_symbol":
        b = f["byte"]
        syms[b] = (f["symbol"] if f["symbol"] is not None else syms[b][0], 1)
    syms += [(L.END, 1), (L.END, 1), (L.END, 1), (L.EPF, 1)]
    dpp = [L.DPPSTART] + L.symbols_to_words(syms)
    if kind == "abort":
        dpp = dpp[:1 + min(f["at"], n // 4)] + [L.DPPABORT]
    words = [tuple(w) for w in hdr] + dpp
    # ---- reference expectation ----
    ph = L.parse_header([w[0] for w in hdr[1:]])
    hdr_ok = ph["crc5_ok"] and ph["crc16_ok"] and ph["type"] == L.HP_TYPE_DATA
    body_sent = bytes(body)
    crc_ok = L.crc32(body_sent[:n]) == int.from_bytes(body_sent[n:], "little")
    clean = kind not in ("dpp_ctrl_symbol", "abort")
    info = {"hdr_ok": hdr_ok, "n": n, "good": hdr_ok and clean and crc_ok, "clean": clean, "payload_sent": body_sent[:n],
            "n_payload_words": (n + 3) // 4, "kind": kind or "none"}
    return words, info


def expand(scn):
    """ -> per-cycle stream [(data, ctrl, valid)], packet records (with cycle numbers) """
    cfg = scn["config"]
    stream = [(0, 0, cfg["idle_valid"])] * 3
    recs = []
    salt = cfg["salt"]

    def filler(kind, prev, nxt, k, crc):
        if kind == "zero":
            return 0
        if kind == "prev":
            return prev
        if kind == "next":
            return nxt
        if kind == "crc":
            return crc
        return (salt * (k + 1) * 2654435761 + 0x9E3779B9 * len(stream)) & 0xFFFFFFFF

    for oi, op in enumerate(scn["ops"]):
        words, info = build_packet(op)
        gaps = {}
        for pos, cnt, kind in op.get("gaps", []):
            if 1 <= pos <= len(words):
                gaps.setdefault(pos, []).append((cnt, kind))
        rec = dict(info)
        rec["op"] = oi
        rec["t_words"] = []
        rec["gap_classes"] = set()
        crcw = L.crc32(info["payload_sent"])
        for k, (d, c) in enumerate(words):
            for cnt, kind in gaps.get(k, []):
                for j in range(cnt):
                    prev = stream[-1][0]
                    stream.append((filler(kind, prev, d, j, crcw), c if kind == "next" else 0, 0))
                npw = info["n_payload_words"]
                cls = ("gap_in_header" if k <= 4 else "gap_before_sdp" if k == 5 else
                       "gap_before_crc_word" if k == 6 + npw else "gap_in_payload" if k < 6 + npw else "gap_after_crc")
                rec["gap_classes"].add(cls)
            rec["t_words"].append(len(stream))
            stream.append((d, c, 1))
        for cnt, kind in gaps.get(len(words), []):
            for j in range(cnt):
                stream.append((filler(kind, stream[-1][0], 0, j, crcw), 0, 0))
            rec["gap_classes"].add("gap_after_crc")
        rec["t_sdp"] = rec["t_words"][5]
        rec["t_end"] = len(stream) - 1
        # the word that completes the payload (0-length: DPPSTART itself)
        k_last = 5 + info["n_payload_words"]
        rec["t_last_payload"] = rec["t_words"][min(k_last, len(words) - 1)]
        recs.append(rec)
        a = op["after"]
        k = a["kind"]
        if k == "idle":
            stream += [(0, 0, 1)] * a["n"]
        elif k == "gap":
            stream += [(a["a"], 0, 0)] * a["n"]
        elif k == "data":
            stream += [(a["a"], 0, 1), (a["b"], 0, 1)]
        elif k == "lcmd":
            stream += [(d, c, 1) for d, c in L.link_command(a["c"] & 3, a["d"] & 3)]
        elif k == "hdr":
            stream += [(d, c, 1) for d, c in L.header_words(L.HP_TYPE_TRANSACTION | (a["a"] & ~0x1F), a["b"], a["a"] ^ a["b"], a["d"])]
        elif k == "hdr_data_no_dpp":
            stream += [(d, c, 1) for d, c in L.header_words(L.HP_TYPE_DATA | (a["a"] & ~0x1F), a["b"], 0, a["d"], deferred=1)]
            stream += [(0, 0, 1)]
        rec["immediate_next"] = k == "none"
    stream += [(0, 0, cfg["idle_valid"])] * 12
    return stream, recs


class _Actor:
    def __init__(self, stream):
        self.stream = stream
        self.strobes = []      # (t, "good"|"bad")
        self.bytes = []        # (t, data, mask)

    def drive(self, t):
        d, c, v = self.stream[t] if t < len(self.stream) else (0, 0, 0)
        return {"sink_valid": v, "sink_data": d, "sink_ctrl": c}

    def observe(self, t, o):
        if o["good"]:
            self.strobes.append((t, "good"))
        if o["bad"]:
            self.strobes.append((t, "bad"))
        if o["src_valid"]:
            self.bytes.append((t, o["src_data"], o["src_valid"]))
        return t >= len(self.stream) - 1


def run(scn):
    bench = _bench()
    viol = Violations()
    probes = {p: 0 for p in PROBES}
    stream, recs = expand(scn)
    a = _Actor(stream)
    log = bench.run([a], len(stream) + 2)
    if log.cycles < len(stream):
        raise RuntimeError("stream was not played completely")

    used = set()
    prev_kinds = []
    for ri, r in enumerate(recs):
        w0, w1 = r["t_sdp"], r["t_end"] + 4
        if ri + 1 < len(recs):
            w1 = min(w1, recs[ri + 1]["t_sdp"] - 1)
        st = [(k, s) for k, s in enumerate(a.strobes) if w0 <= s[0] <= w1]
        for k, _ in st:
            used.add(k)
        goods = [s for _, s in st if s[1] == "good"]
        bads = [s for _, s in st if s[1] == "bad"]
        gaps = sorted(r["gap_classes"])
        shape = {"fault": r["kind"], "zero_length": r["n"] == 0,
                 "gap_before_crc_word": "gap_before_crc_word" in r["gap_classes"]}
        seq = [s[1] for _, s in st]
        pattern = ("none" if not seq else "good_then_bad" if seq == ["good", "bad"] else "bad_twice" if seq == ["bad", "bad"] else
                   "good_repeated" if len(seq) > 2 and set(seq) == {"good"} else "other")
        desc = (f"packet {ri} ({r['n']} bytes, fault {r['kind']}, gaps {gaps}; DPPSTART at cycle {r['t_sdp']}, last payload word at "
                f"{r['t_last_payload']}, last word at {r['t_end']}): strobes {[s for _, s in st]}")
        if not r["hdr_ok"]:
            if goods or len(bads) > 1:
                viol.add("C40.bad_header", (goods + bads)[0][0], desc + " -- header is invalid: expected no 'good' and at most one 'bad'", **shape)
                break
            continue
        if len(st) != 1:
            viol.add("C40.once", st[0][1][0] if st else r["t_end"], desc + " -- expected exactly one verdict strobe",
                     pattern=pattern, **shape)
            break
        t_v, v = st[0][1]
        want = "good" if r["good"] else "bad"
        if v != want:
            viol.add("C40.verdict", t_v, desc + f" -- expected '{want}'", got=v, **shape)
            break
        if r["clean"] and t_v < r["t_last_payload"]:
            viol.add("C40.once", t_v, desc + " -- verdict before the end of the payload", pattern="early", **shape)
            break
        if r["clean"]:
            got = bytearray()
            okmask = True
            for t, data, mask in a.bytes:
                if w0 <= t <= t_v:
                    if mask not in (1, 3, 7, 15):
                        okmask = False
                    for b in range(4):
                        if mask & (1 << b):
                            got.append((data >> (8 * b)) & 0xFF)
            if bytes(got) != r["payload_sent"] or not okmask:
                viol.add("C40.payload", t_v, desc + f" -- payload stream delivered {len(got)} bytes {bytes(got).hex()[:80]}, sent {r['n']} bytes "
                         f"{r['payload_sent'].hex()[:80]} (byte masks contiguous: {okmask})", **shape)
                break
    if not viol:
        stray = [s for k, s in enumerate(a.strobes) if k not in used]
        if stray:
            t = stray[0][0]
            before = [r for r in recs if r["t_end"] < t]
            last = before[-1] if before else None
            viol.add("C40.no_late_strobe", t, f"'{stray[0][1]}' strobe at cycle {t} outside any data packet window "
                     f"(previous packet: {last and (last['n'], last['kind'], last['t_end'])}); {len(stray)} such strobes",
                     after_fault=last["kind"] if last else "none", after_zero_length=bool(last and last["n"] == 0),
                     after_bad_header=bool(last and not last["hdr_ok"]))

    # ---- probes ----
    faults = {}
    for ri, r in enumerate(recs):
        n = r["n"]
        if r["hdr_ok"]:
            probes["len0" if n == 0 else f"len_mod4_{n % 4}"] += 1
        for g in r["gap_classes"]:
            probes[g] += 1
            faults["invalid_word_gap"] = faults.get("invalid_word_gap", 0) + 1
        k = r["kind"]
        if k != "none":
            faults[k] = faults.get(k, 0) + 1
        if k == "dpp_crc32":
            probes["crc32_bad"] += 1
            if n == 0:
                probes["crc32_bad_zero_length"] += 1
        elif k == "dpp_ctrl_symbol":
            f = scn["ops"][r["op"]]["fault"]
            probes["ctrl_in_last_payload_word" if f["byte"] // 4 == (n - 1) // 4 else "ctrl_in_payload"] += 1
        elif k == "abort":
            probes["abort_zero_length" if n == 0 else "abort"] += 1
        elif k == "hdr_crc5":
            probes["hdr_crc5_bad"] += 1
        elif k == "hdr_crc16":
            probes["hdr_crc16_bad"] += 1
        if r["good"]:
            probes["good_packets"] += 1
        if r.get("immediate_next") and ri + 1 < len(recs):
            probes["packet_immediately_after"] += 1
    outcome = sorted(set(("good" if r["good"] else "bad" if r["hdr_ok"] else "ign", "z" if r["n"] == 0 else str(r["n"] % 4)) for r in recs))
    sig = hashlib.blake2b(repr((sorted(log.fsm_vectors), sorted(faults), outcome,
                                sorted(set(g for r in recs for g in r["gap_classes"])))).encode(), digest_size=8).hexdigest()
    return {"violations": viol.items, "cycles": log.cycles, "faults": faults, "probes": probes, "sig": sig,
            "nontrivial": any(r["hdr_ok"] for r in recs), "digest": log.digest, "fsm": len(log.fsm_vectors)}


def shrink_candidates(scn):
    """ drop not-valid word gaps, following traffic and shorten payloads (generic ddmin only removes whole packets) """
    import copy
    for i, op in enumerate(scn["ops"]):
        if op.get("gaps"):
            for k in range(len(op["gaps"])):
                cand = copy.deepcopy(scn)
                del cand["ops"][i]["gaps"][k]
                if not cand["ops"][i]["gaps"]:
                    del cand["ops"][i]["gaps"]
                yield cand
        if op["after"]["kind"] != "idle":
            cand = copy.deepcopy(scn)
            cand["ops"][i]["after"]["kind"] = "idle"
            yield cand
        n = len(op["payload"]) // 2
        if n > 8 and not op.get("fault"):
            cand = copy.deepcopy(scn)
            cand["ops"][i]["payload"] = op["payload"][:2 * (4 + n % 4)]
            yield cand
