"""
C19 -- USB2 reset, high-speed handshake and suspend follow the line-state timing rules.

DUT: the real USBResetSequencer, standalone, at its real 60 MHz constants (nothing is scaled).
Actor: models.line_state.LineState plays (line_state, duration) segments, VBUS / speed-restriction / soft-disconnect /
bus_busy changes, and "hold until the device shows <event>" ops so that host chirps and glitches can be placed at exact
offsets from the end of the device chirp.

Oracle: interval arithmetic over the *input* history (what the actor actually drove) and the device's output change log:
  operating at HS  := current_speed == HIGH and operating_mode == NORMAL and termination_select == 0
  chirp mode       := operating_mode == CHIRP (device chirp K = tx.valid while in chirp mode)
  FS/LS normal     := current_speed != HIGH and operating_mode == NORMAL and termination_select == 1
"""

import hashlib

from dsim.kernel import make_bench, cached_bench, Violations
from models.line_state import LineState, Steps, SE0, J_FS, K_FS, SE1

PROPERTY = "C19"
ENGINE = "usb2_reset"
CLOCK_HZ = 60e6
RULES = {
    "C19.hs_only_after_handshake": "HS operation begins only after bus reset -> device chirp -> >= 3 host K-J pairs with every state >= 150 cycles, or on resume from a suspend entered at HS",
    "C19.no_chirp_when_restricted": "chirp mode is never entered while low/full-speed-only has been asserted since before the reset was reported",
    "C19.leave_hs_on_restrict": "HS operation and a speed restriction never coexist for more than 2 consecutive cycles",
    "C19.fallback_when_no_host_chirp": "if no complete host chirp arrives within 2.5 ms (150 000 cycles) of the end of the device chirp, the device shows FS/LS normal mode (or HS) within 600 further cycles",
    "C19.reset_only_after_se0": "bus_reset only while VBUS absent, or SE0 >= 300 cycles (>= 150 when suspended), or (from HS) >= 3 ms SE0 then >= 200 us then non-idle",
    "C19.suspend_only_after_idle": "suspended rises only after >= 180 000 cycles of continuous idle (HS: 3 ms SE0, 200 us, then FS idle)",
}
PROBES = ["hs_reached", "hs_resume_from_suspend", "fallback_timeout_reached", "host_chirp_at_deadline", "short_chirp_state",
          "two_pairs_only", "glitched_chirp", "restrict_during_hs", "restrict_during_hs_detect_window", "restrict_mid_handshake",
          "hs_suspend", "hs_reset", "fs_suspend", "reset_from_suspend", "reset_fs_active", "se0_just_too_short",
          "idle_just_too_short", "vbus_loss", "soft_disconnect", "bus_busy_stall", "low_speed"]
META = {
    "components_real": ["USBResetSequencer"],
    "components_stubbed": ["UTMI PHY line_state / VBUS, host signalling, strap inputs (models.line_state.LineState)"],
    "assumptions": ["line_state, VBUS and the strap inputs are synchronous to the 60 MHz clock",
                    "the three-pairs requirement is read as: after the device chirp the input contains K>=150, later J>=150, three times "
                    "(runs may be separated by anything); the DUT is stricter",
                    "'3 ms SE0 followed by 200 us of non-idle' is read weakly: non-idle when the reset is reported",
                    "'leaves high speed within two cycles' is read as: HS operation and restriction coexist for at most 2 consecutive cycles"],
    "rule": "one template per run (FS/LS reset bursts around 150/300 cycles; full HS handshake with good / short / two-pair / glitched / "
            "missing / at-the-deadline host chirps; HS suspend-or-reset after 3 ms SE0; FS suspend after 3 ms idle; resume / reset from "
            "suspend) with VBUS loss, soft disconnect, bus_busy stalls and speed-restriction toggles placed at random and at targeted points",
}
TIERS = {"quick": {"runs": 200, "wall": 75, "chunk": 2, "shrink_budget": 32},
         "thorough": {"runs": 3600, "wall": 900, "chunk": 4, "shrink_budget": 64}}

HIGH, FULL, LOW = 0, 1, 2
T_2P5US, T_5US, T_200US, T_2MS, T_2P5MS, T_3MS = 150, 300, 12000, 120000, 150000, 180000


# --------------------------------------------------------------------------------------------------
# scenario generation
# --------------------------------------------------------------------------------------------------
def _seg(ls, n):
    return {"op": "seg", "ls": ls, "n": int(n)}


def _set(pin, v):
    return {"op": "set", "pin": pin, "v": int(v)}


def _near(rng, n, spread=4):
    return n + rng.randint(-spread, spread)


def _se0_burst(rng, ops, idle, kinds):
    k = rng.choice(kinds)
    if k == "near150":
        ops.append(_seg(SE0, _near(rng, 150)))
    elif k == "near300":
        ops.append(_seg(SE0, _near(rng, 300)))
    elif k == "glitched":
        ops.append(_seg(SE0, rng.randint(100, 299)))
        ops.append(_seg(rng.choice([idle, K_FS, SE1]), rng.randint(1, 3)))
        ops.append(_seg(SE0, _near(rng, 300, 8)))
    elif k == "short":
        ops.append(_seg(SE0, rng.randint(1, 140)))
    else:
        ops.append(_seg(SE0, rng.randint(310, 900)))


def _host_chirps(rng, ops, variant):
    """ host response after the device chirp; returns True if the train is meant to be sufficient """
    def state_len(short_ok=False):
        r = rng.random()
        if short_ok and r < 0.5:
            return rng.randint(138, 151)
        if r < 0.5:
            return rng.randint(152, 160)
        return rng.choice([200, 600, 3000])
    if variant == "good":
        for _ in range(rng.choice([3, 3, 4, 6])):
            ops.append(_seg(K_FS, state_len()))
            ops.append(_seg(J_FS, state_len()))
    elif variant == "short":
        bad = rng.randrange(6)
        for i in range(3):
            for j, ls in enumerate((K_FS, J_FS)):
                ops.append(_seg(ls, rng.randint(120, 149) if 2 * i + j == bad else state_len()))
    elif variant == "two_pairs":
        for _ in range(2):
            ops.append(_seg(K_FS, state_len()))
            ops.append(_seg(J_FS, state_len()))
        if rng.random() < 0.5:
            ops.append(_seg(K_FS, state_len()))
    elif variant == "glitched":
        for i in range(3):
            for ls in (K_FS, J_FS):
                if rng.random() < 0.4:
                    ops.append(_seg(ls, rng.randint(20, 149)))
                    ops.append(_seg(rng.choice([SE0, SE1, K_FS if ls == J_FS else J_FS]), rng.randint(1, 3)))
                    ops.append(_seg(ls, rng.choice([rng.randint(100, 149), rng.randint(152, 400)])))
                else:
                    ops.append(_seg(ls, state_len()))
    ops.append(_seg(SE0, rng.randint(20, 400)))


def gen(rng, tier, index):
    tmpl = rng.choice(["fs_bursts", "fs_bursts", "handshake", "handshake", "handshake", "timeout", "deadline", "deadline",
                       "fs_suspend", "fs_suspend", "hs_then_3ms", "hs_then_3ms", "hs_then_3ms"])
    low = tmpl in ("fs_bursts", "fs_suspend") and rng.random() < 0.3
    idle = 2 if low else J_FS           # LS idle (J) is line_state 10
    kstate = 1 if low else K_FS
    pins = {"vbus_connected": 1, "low_speed_only": int(low), "full_speed_only": 0, "disconnect": 0, "bus_busy": 0}
    ops = []
    faults_ok = rng.random() > 0.15
    if rng.random() < 0.2:
        pins["vbus_connected"] = 0
        ops.append(_seg(idle, rng.randint(5, 200)))
        ops.append(_set("vbus_connected", 1))
    ops.append(_seg(idle, rng.randint(4, 400)))

    if tmpl == "fs_bursts":
        if not low:
            ops.insert(0, _set("full_speed_only", 1))
        for _ in range(rng.randint(3, 9)):
            _se0_burst(rng, ops, idle, ["near150", "near300", "near300", "glitched", "short", "long"])
            ops.append(_seg(idle, rng.randint(2, 1500)))
            r = rng.random()
            if faults_ok and r < 0.15:
                ops.append(_set("vbus_connected", 0))
                ops.append(_seg(rng.choice([SE0, idle]), rng.randint(1, 500)))
                ops.append(_set("vbus_connected", 1))
                ops.append(_seg(rng.choice([SE0, idle]), rng.randint(1, 320)))
                ops.append(_seg(idle, rng.randint(2, 100)))
            elif faults_ok and r < 0.3:
                ops.append(_set("disconnect", 1))
                ops.append(_seg(idle, rng.randint(1, 400)))
                ops.append(_seg(SE0, rng.randint(100, 400)))
                ops.append(_set("disconnect", 0))
                ops.append(_seg(idle, rng.randint(200, 600)))
        if not low and rng.random() < 0.3:
            # lift the restriction and let one reset start a handshake that is then abandoned by the host
            ops.append(_set("full_speed_only", 0))
            ops.append(_seg(SE0, rng.randint(300, 330)))
            ops.append(_seg(rng.choice([SE0, J_FS]), rng.randint(10, 3000)))

    elif tmpl in ("handshake", "timeout", "deadline", "hs_then_3ms"):
        if faults_ok and rng.random() < 0.3:
            ops.append(_set("bus_busy", 1))
        _se0_burst(rng, ops, idle, ["near300", "long", "long"])
        ops.append({"op": "until", "event": "chirp_start", "ls": SE0, "max": rng.choice([40, 400]), "after": 0})
        ops.append(_set("bus_busy", 0))
        # device chirp: the PHY reports K while the device drives it
        ops.append({"op": "until", "event": "chirp_end", "ls": rng.choice([K_FS, K_FS, SE0]), "max": 121000, "after": 0})
        if tmpl == "timeout":
            ops.append(_seg(rng.choice([SE0, J_FS]), rng.choice([2000, 60000])))
            if rng.random() < 0.5:
                _host_chirps(rng, ops, rng.choice(["short", "two_pairs", "glitched"]))
            ops.append({"op": "until", "event": "hs", "ls": rng.choice([SE0, J_FS, K_FS]), "max": T_2P5MS + 900, "after": 0})
            ops.append(_seg(J_FS, rng.randint(20, 400)))
        elif tmpl == "deadline":
            delta = rng.choice([-2, -1, 0, 0, 0, 1, 2])
            first = rng.random() < 0.5
            if first:
                # silence, then the first host K exactly around the 2.5 ms deadline, then silence again
                ops.append(_seg(SE0, T_2P5MS - 1 + delta))
                ops.append(_seg(K_FS, rng.choice([1, 3, 200, 3000])))
            else:
                # a valid K early, silence, then the J exactly around the deadline
                ops.append(_seg(SE0, rng.randint(10, 3000)))
                n0 = sum(o["n"] for o in ops[-1:])
                k = rng.choice([160, 3000])
                ops.append(_seg(K_FS, k))
                gap = T_2P5MS - 1 + delta - n0 - k
                ops.append(_seg(SE0, gap))
                ops.append(_seg(J_FS, rng.choice([1, 3, 200, 3000])))
            ops.append(_seg(SE0, rng.randint(700, 1500)))
            if rng.random() < 0.5:
                _host_chirps(rng, ops, "good")
            ops.append(_seg(SE0, rng.randint(10, 300)))
        else:
            ops.append(_seg(rng.choice([SE0, J_FS, K_FS]), rng.randint(1, 3000)))
            variant = rng.choice(["good", "good", "good", "short", "two_pairs", "glitched"]) if faults_ok else "good"
            if tmpl == "hs_then_3ms":
                variant = "good"
            if faults_ok and tmpl != "hs_then_3ms" and rng.random() < 0.15:
                ops.append(_set(rng.choice(["full_speed_only", "low_speed_only"]), 1))      # restriction mid-handshake
            _host_chirps(rng, ops, variant)
            if variant != "good" and rng.random() < 0.6:
                _host_chirps(rng, ops, "good")                                                  # the host retries properly
            # life at high speed (or wherever the device ended up)
            for _ in range(rng.randint(0, 4)):
                ops.append(_seg(SE0, rng.randint(10, 5000)))
                ops.append(_seg(rng.choice([J_FS, K_FS]), rng.randint(1, 40)))
            if faults_ok and tmpl != "hs_then_3ms" and rng.random() < 0.35:
                pin = rng.choice(["full_speed_only", "low_speed_only"])
                ops.append(_set(pin, 1))
                ops.append(_seg(SE0, rng.randint(1, 30)))
                if rng.random() < 0.5:
                    ops.append(_set(pin, 0))
                ops.append(_seg(J_FS, rng.randint(5, 400)))
            if tmpl == "hs_then_3ms":
                ops.append(_seg(rng.choice([J_FS, K_FS]), rng.randint(1, 20)))
                r = rng.random()
                if r < 0.2:
                    ops.append(_seg(SE0, rng.randint(T_3MS - 6, T_3MS - 1)))                # just too short, then traffic
                    ops.append(_seg(K_FS, rng.randint(1, 4)))
                    ops.append(_seg(SE0, rng.randint(100, 1000)))
                else:
                    ops.append(_seg(SE0, T_3MS + rng.randint(0, 40)))
                    if faults_ok and rng.random() < 0.4:
                        # a speed restriction arrives inside the 200 us discrimination window
                        ops.append(_seg(SE0, rng.randint(1, 11000)))
                        ops.append(_set(rng.choice(["full_speed_only", "low_speed_only"]), 1))
                    if rng.random() < 0.5:
                        # suspend: the bus floats to FS idle
                        ops.append({"op": "until", "event": "suspend", "ls": J_FS, "max": T_200US + 400, "after": rng.randint(5, 500)})
                        r2 = rng.random()
                        if r2 < 0.45:
                            ops.append(_seg(K_FS, rng.randint(2, 2000)))                        # resume
                            ops.append(_seg(SE0, rng.randint(10, 2000)))
                        elif r2 < 0.85:
                            ops.append(_seg(SE0, _near(rng, 150)))                               # reset from suspend
                            ops.append(_seg(rng.choice([SE0, J_FS]), rng.randint(10, 600)))
                        else:
                            ops.append(_set("vbus_connected", 0))
                            ops.append(_seg(J_FS, rng.randint(10, 300)))
                    else:
                        # reset: SE0 continues, the device must chirp again
                        ops.append({"op": "until", "event": "chirp_start", "ls": rng.choice([SE0, SE0, K_FS]), "max": T_200US + 400, "after": 0})
                        ops.append(_seg(K_FS, rng.randint(10, 600)))

    elif tmpl == "fs_suspend":
        if not low and rng.random() < 0.7:
            ops.insert(0, _set("full_speed_only", 1))
        r = rng.random()
        if r < 0.3:
            ops.append(_seg(rng.choice([kstate, SE0]), rng.randint(1, 3)))
            ops.append(_seg(idle, rng.randint(T_3MS - 6, T_3MS - 1)))                       # just too short
            ops.append(_seg(rng.choice([kstate, SE0]), rng.randint(1, 3)))
            ops.append(_seg(idle, rng.randint(50, 3000)))
        else:
            ops.append(_seg(idle, T_3MS + rng.randint(0, 30)))
            ops.append(_seg(idle, rng.randint(1, 2000)))
            r2 = rng.random()
            if r2 < 0.4:
                ops.append(_seg(kstate, rng.randint(1, 1200)))                                  # resume
                ops.append(_seg(idle, rng.randint(10, 600)))
                _se0_burst(rng, ops, idle, ["near150", "near300", "near300"])
            elif r2 < 0.85:
                ops.append(_seg(SE0, _near(rng, 150)))                                          # reset from suspend
                ops.append(_seg(rng.choice([SE0, idle]), rng.randint(1, 400)))
            else:
                ops.append(_set("vbus_connected", 0))
                ops.append(_seg(idle, rng.randint(10, 300)))
                ops.append(_set("vbus_connected", 1))
            ops.append(_seg(idle, rng.randint(10, 600)))
    ops.append(_seg(idle, rng.randint(4, 60)))
    return {"engine": ENGINE, "config": {"template": tmpl, "pins": pins}, "ops": ops}


# --------------------------------------------------------------------------------------------------
def _bench():
    def factory():
        from luna.gateware.usb.usb2.reset import USBResetSequencer
        dut = USBResetSequencer()
        ins = {"line_state": dut.line_state, "vbus_connected": dut.vbus_connected, "low_speed_only": dut.low_speed_only,
               "full_speed_only": dut.full_speed_only, "disconnect": dut.disconnect, "bus_busy": dut.bus_busy,
               "tx_ready": dut.tx.ready}
        outs = {"bus_reset": dut.bus_reset, "suspended": dut.suspended, "speed": dut.current_speed,
                "op_mode": dut.operating_mode, "term": dut.termination_select, "tx_valid": dut.tx.valid}
        return make_bench(dut, clocks={"usb": 1 / 60e6}, main="usb", ins=ins, outs=outs)
    return cached_bench(("c19",), factory)


def _max_cycles(scn):
    n = 200
    for op in scn["ops"]:
        if op["op"] == "seg":
            n += op["n"]
        elif op["op"] == "until":
            n += op.get("max", 130000) + op.get("after", 0) + 2
    return n


def _is_hs(o):
    return o[2] == HIGH and o[3] == 0 and o[4] == 0


def _is_fsls_normal(o):
    return o[2] != HIGH and o[3] == 0 and o[4] == 1


def _count_pairs(ls, t0, t1):
    """ number of (K run >= 150, later J run >= 150) pairs in the line-state history clipped to [t0, t1] """
    pairs = 0
    want = K_FS
    ts, vs = ls.ts, ls.vs
    for i, (t, v) in enumerate(zip(ts, vs)):
        end = ts[i + 1] if i + 1 < len(ts) else t1 + 1
        a, b = max(t, t0), min(end, t1 + 1)
        if b - a >= T_2P5US and v == want:
            if want == J_FS:
                pairs += 1
            want = J_FS if want == K_FS else K_FS
    return pairs


def run(scn):
    bench = _bench()
    pins = dict(scn["config"]["pins"])
    actor = LineState(scn["ops"], pins)
    init = dict(pins)
    init.update({"line_state": J_FS, "tx_ready": 1})
    cap = _max_cycles(scn)
    log = bench.run([actor], cap, init=init)
    if not actor.done:
        raise RuntimeError(f"line-state script did not finish within {cap} cycles")
    n = log.cycles
    viol = Violations()
    probes = {p: 0 for p in PROBES}

    ls = Steps(actor.ls_changes)
    vbus = Steps(actor.pin_changes["vbus_connected"])
    low = Steps(actor.pin_changes["low_speed_only"])
    full = Steps(actor.pin_changes["full_speed_only"])
    outs = Steps(actor.out_changes)
    och = actor.out_changes
    # restriction history merged into one step function
    rts = sorted(set(low.ts) | set(full.ts))
    restr = Steps([(t, int(low.at(t) or full.at(t))) for t in rts])

    def se0_len(t):          # consecutive SE0 cycles ending at cycle t (inclusive)
        return ls.run_len(t, lambda v: v == SE0) if t >= 0 else 0

    hs_iv = outs.intervals(_is_hs, n)
    chirp_iv = outs.intervals(lambda o: o[3] == 2, n)
    txv_iv = outs.intervals(lambda o: o[5] == 1, n)
    susp_iv = outs.intervals(lambda o: o[1] == 1, n)
    reset_iv = outs.intervals(lambda o: o[0] == 1, n)
    restr_iv = restr.intervals(lambda v: v == 1, n)

    def last_hs_before(t):
        best = None
        for a, b in hs_iv:
            if a < t:
                best = min(b, t) - 1
        return best

    # ---- C19.reset_only_after_se0 ---------------------------------------------------------------------------
    for a, b in reset_iv:
        if viol:
            break
        checked = 0
        t = a
        while t < b and checked < 2000:
            if not vbus.at(t) or (t > 0 and not vbus.at(t - 1)):
                # skip ahead to the next cycle where VBUS is present
                nxt = [x for x in vbus.ts if x > t]
                t = (nxt[0] + 1) if nxt else b
                continue
            checked += 1
            n_se0 = max(se0_len(t - 1), se0_len(t))
            o = outs.at(t)
            susp = bool(o[1]) or (t > 0 and bool(outs.at(t - 1)[1]))
            ok = n_se0 >= T_5US or (susp and n_se0 >= T_2P5US)
            ctx = "suspended" if susp else ("fs_ls" if o[2] != HIGH else "hs")
            if not ok:
                h = last_hs_before(t)
                if h is not None and T_200US <= t - h <= T_200US + 64:
                    ctx = "hs"
                    idle_now = ls.at(t) == J_FS and ls.at(t - 1) == J_FS
                    ok = se0_len(h - 1) >= T_3MS - 1 and not idle_now
            if not ok:
                viol.add("C19.reset_only_after_se0", t, f"bus_reset at cycle {t}: VBUS present, SE0 had lasted {n_se0} cycles, "
                         f"context {ctx} (speed={o[2]}, suspended={o[1]}); none of the admissible reset conditions holds",
                         context=ctx, se0_cycles=min(n_se0, 999))
                break
            if susp:
                probes["reset_from_suspend"] += 1
            elif ctx == "hs":
                probes["hs_reset"] += 1
            else:
                probes["reset_fs_active"] += 1
            t += 1

    # ---- C19.suspend_only_after_idle -------------------------------------------------------------------------
    for a, b in susp_iv:
        if viol and viol.items[0]["cycle"] < a:
            break
        o_prev = outs.at(a - 1) if a > 0 else (0, 0, FULL, 0, 1, 0)
        idle_code = 2 if o_prev[2] == LOW else J_FS
        n_idle = max(ls.run_len(a - 1, lambda v: v == idle_code), ls.run_len(a, lambda v: v == idle_code))
        ok = n_idle >= T_3MS
        kind = "fs_ls"
        if not ok:
            h = last_hs_before(a)
            if h is not None and T_200US <= a - h <= T_200US + 64:
                kind = "hs"
                ok = se0_len(h - 1) >= T_3MS - 1 and (ls.at(a - 1) == J_FS or ls.at(a) == J_FS)
        if not ok:
            viol.add("C19.suspend_only_after_idle", a, f"suspended rose at cycle {a} after only {n_idle} cycles of continuous idle "
                     f"(idle line state {idle_code:02b}); path {kind}", path=kind, idle_cycles=min(n_idle, 999999))
        else:
            probes["hs_suspend" if kind == "hs" else "fs_suspend"] += 1

    # ---- C19.leave_hs_on_restrict ------------------------------------------------------------------------------
    for a, b in hs_iv:
        for c, d in restr_iv:
            lo, hi = max(a, c), min(b, d)
            if hi - lo >= 1:
                probes["restrict_during_hs"] += 1
            if hi - lo > 2:
                viol.add("C19.leave_hs_on_restrict", lo + 2, f"operating at HS during cycles [{a},{b}) while a speed restriction is "
                         f"asserted during [{c},{d}): {hi - lo} consecutive cycles of overlap (more than 2)",
                         entered_restricted=bool(c < a))

    # ---- C19.no_chirp_when_restricted ----------------------------------------------------------------------------
    for a, b in chirp_iv:
        if a >= 8 and all(restr.at(k) for k in range(a - 8, a + 1)):
            h = last_hs_before(a)
            via = "hs_detect_window" if (h is not None and a - h <= T_200US + 80) else "other"
            viol.add("C19.no_chirp_when_restricted", a, f"chirp mode entered at cycle {a} although a speed restriction has been asserted "
                     f"continuously since cycle {restr.run_start(a, lambda v: v == 1)} (before the reset decision)", via=via)
        if any(c < b and d > a for c, d in restr_iv):
            probes["restrict_mid_handshake"] += 1
    for a, b in hs_iv:
        # restriction asserted inside the 200 us window after leaving HS
        if any(b <= c <= b + T_200US for c, d in restr_iv):
            probes["restrict_during_hs_detect_window"] += 1

    # ---- C19.hs_only_after_handshake ------------------------------------------------------------------------------
    for a, b in hs_iv:
        # (B) resume from a suspend that was entered at HS
        resumed = False
        for sa, sb in susp_iv:
            if sb <= a <= sb + 3:
                h = last_hs_before(sa)
                if h is not None and sa - h <= T_200US + 80:
                    resumed = True
        if resumed:
            probes["hs_resume_from_suspend"] += 1
            continue
        # (A) reset -> device chirp -> three pairs
        chirps = [iv for iv in txv_iv if iv[1] <= a]
        resets = [iv for iv in reset_iv if iv[0] < a]
        reason = None
        if not chirps:
            reason = "no device chirp before"
        else:
            ca, cb = chirps[-1]
            prev_hs_end = max([y for x, y in hs_iv if y <= ca], default=-1)
            if not any(prev_hs_end <= ra < ca + 8 for ra, rb in resets):
                reason = "no bus reset reported before the device chirp"
            else:
                pairs = _count_pairs(ls, cb - 2, a)
                if pairs < 3:
                    reason = f"only {pairs} host K-J pair(s) with both states >= 150 cycles between the end of the device chirp " \
                             f"(cycle {cb}) and cycle {a}"
        if reason:
            viol.add("C19.hs_only_after_handshake", a, f"HS operation begins at cycle {a}: {reason}", reason=reason.split(" ")[0] + "_" + reason.split(" ")[1])
        else:
            probes["hs_reached"] += 1

    # ---- C19.fallback_when_no_host_chirp ---------------------------------------------------------------------------
    for ca, cb in txv_iv:
        if outs.at(cb - 1)[3] != 2:
            continue                                   # not a chirp transmission
        deadline = cb + T_2P5MS
        if deadline + 600 >= n:
            continue                                   # the run ended before the bound
        # anything in the window that already ends the episode?
        settled = None
        for t, o in och:
            if cb <= t <= deadline + 600 and (_is_fsls_normal(o) or _is_hs(o)):
                settled = t
                break
        k_at = ls.at(deadline) in (K_FS, J_FS) and (ls.run_start(deadline, lambda v, x=ls.at(deadline): v == x) or 0) >= deadline - 3
        if k_at:
            probes["host_chirp_at_deadline"] += 1
        if settled is None:
            pairs = _count_pairs(ls, cb - 2, deadline + 600)
            viol.add("C19.fallback_when_no_host_chirp", deadline + 600, f"device chirp ended at cycle {cb}; {pairs} complete host K-J pairs by "
                     f"cycle {deadline + 600} (2.5 ms + 600 cycles) but the device is still in mode speed={outs.at(deadline + 600)[2]} "
                     f"op_mode={outs.at(deadline + 600)[3]} term={outs.at(deadline + 600)[4]} (neither FS/LS normal nor HS)",
                     line_change_at_deadline=bool(k_at), pairs=pairs)
        elif settled >= deadline - 2 and not _is_hs(outs.at(settled)):
            probes["fallback_timeout_reached"] += 1

    # ---- probes from the stimulus ----------------------------------------------------------------------------------
    for i, (t, v) in enumerate(zip(ls.ts, ls.vs)):
        end = ls.ts[i + 1] if i + 1 < len(ls.ts) else n
        d = end - t
        if v == SE0 and (140 <= d < 150 or 290 <= d < 300):
            probes["se0_just_too_short"] += 1
        if v in (K_FS, J_FS) and 120 <= d < 150 and any(x <= t < y + T_2P5MS for x, y in txv_iv):
            probes["short_chirp_state"] += 1
        if v in (J_FS, 2) and T_3MS - 8 <= d < T_3MS:
            probes["idle_just_too_short"] += 1
        if d <= 3 and 0 < i < len(ls.ts) - 1 and ls.vs[i - 1] == ls.vs[i + 1] and any(y <= t < y + T_2P5MS for x, y in txv_iv):
            probes["glitched_chirp"] += 1
    for ca, cb in txv_iv:
        if _count_pairs(ls, cb - 2, min(n - 1, cb + T_2P5MS)) == 2:
            probes["two_pairs_only"] += 1
    probes["vbus_loss"] = sum(1 for v in vbus.vs[1:] if v == 0)
    probes["soft_disconnect"] = sum(1 for t, v in actor.pin_changes["disconnect"][1:] if v == 1)
    probes["bus_busy_stall"] = sum(1 for t, v in actor.pin_changes["bus_busy"] if v == 1)
    probes["low_speed"] = int(any(o[2] == LOW for t, o in och))

    fault_keys = ["short_chirp_state", "two_pairs_only", "glitched_chirp", "restrict_during_hs", "restrict_during_hs_detect_window",
                  "restrict_mid_handshake", "se0_just_too_short", "idle_just_too_short", "vbus_loss", "soft_disconnect",
                  "bus_busy_stall", "host_chirp_at_deadline"]
    names = {"short_chirp_state": "short_chirp", "glitched_chirp": "line_glitch", "restrict_during_hs": "speed_restrict",
             "restrict_during_hs_detect_window": "speed_restrict_in_detect_window", "restrict_mid_handshake": "speed_restrict_mid_handshake"}
    faults = {names.get(k, k): probes[k] for k in fault_keys if probes[k]}
    outcome = sorted(k for k in ("hs_reached", "hs_resume_from_suspend", "fallback_timeout_reached", "hs_suspend", "hs_reset",
                                 "fs_suspend", "reset_from_suspend", "reset_fs_active") if probes[k])
    sig = hashlib.blake2b(repr((scn["config"]["template"], sorted(log.fsm_vectors), sorted(faults), outcome)).encode(),
                          digest_size=8).hexdigest()
    return {"violations": viol.items, "cycles": log.cycles, "faults": faults, "probes": probes, "sig": sig,
            "nontrivial": bool(outcome), "digest": log.digest, "fsm": len(log.fsm_vectors)}
