"""
C19 -- USB2 reset, high-speed handshake and suspend follow the line-state timing rules.

DUT: the real USBResetSequencer, standalone, at its real 60 MHz constants (nothing is scaled).
Actor: models.line_state.LineState plays (line_state, duration) segments, VBUS / speed-restriction / soft-disconnect /
bus_busy changes, and "hold until the device shows <event>" ops so that host chirps and glitches can be placed at exact
offsets from the end of the device chirp.

Every 5th run is a multi-episode history (several resets / handshakes / suspends chained in one run, the later episodes differing
from the earlier ones: fewer chirp pairs, another speed at suspend entry, another way out of the suspend), so that every entry into HS
operation has to be justified by its own episode.

Oracle: interval arithmetic over the *input* history (what the actor actually drove) and the device's output change log:
  operating at HS  := current_speed == HIGH and operating_mode == NORMAL and termination_select == 0
  chirp mode       := operating_mode == CHIRP (device chirp K = tx.valid while in chirp mode)
  FS/LS normal     := current_speed != HIGH and operating_mode == NORMAL and termination_select == 1
"""

import hashlib

from dsim.kernel import make_bench, cached_bench, Violations
from models.line_state import LineState, Steps, SE0, J_FS, K_FS, SE1

PROPERTY = "C19"
ENGINE = "usb2_reset"
CLOCK_HZ = 60e6
RULES = {
    "C19.hs_only_after_handshake": "every entry into HS operation is justified by its own episode: the exit of a suspend that was entered at HS, or the "
                                   "most recent reported bus reset -> device chirp -> >= 3 host K-J pairs (every state >= 150 cycles) counted in the input "
                                   "since THAT chirp ended, with no earlier HS operation, suspend or newer reset between that chirp and the entry",
    "C19.no_chirp_when_restricted": "chirp mode is never entered while low/full-speed-only has been asserted since before the reset was reported",
    "C19.leave_hs_on_restrict": "HS operation and a speed restriction never coexist for more than 2 consecutive cycles",
    "C19.fallback_when_no_host_chirp": "if no complete host chirp arrives within 2.5 ms (150 000 cycles) of the end of the device chirp, the device shows FS/LS normal mode (or HS) within 600 further cycles",
    "C19.reset_only_after_se0": "bus_reset only while VBUS absent, or SE0 >= 300 cycles (>= 150 when suspended), or (from HS) >= 3 ms SE0 then >= 200 us then non-idle",
    "C19.suspend_only_after_idle": "suspended rises only after >= 180 000 cycles of continuous idle (HS: 3 ms SE0, 200 us, then FS idle)",
}
PROBES = ["hs_reached", "hs_resume_from_suspend", "fallback_timeout_reached", "host_chirp_at_deadline", "short_chirp_state",
          "two_pairs_only", "glitched_chirp", "restrict_during_hs", "restrict_during_hs_detect_window", "restrict_mid_handshake",
          "hs_suspend", "hs_reset", "fs_suspend", "reset_from_suspend", "reset_fs_active", "se0_just_too_short",
          "idle_just_too_short", "vbus_loss", "soft_disconnect", "bus_busy_stall", "low_speed",
          # multi-episode histories: a later episode of the same run that differs from an earlier one
          "later_handshake", "later_handshake_fewer_pairs", "hs_after_later_handshake", "later_suspend", "suspend_speed_change",
          "hs_suspend_left_by_reset", "fs_resume_after_hs_suspend",
          # runs executed on a complete USBDevice (judged at its UTMI pins) instead of the bare sequencer
          "device_level_run", "device_level_hs_reached"]
META = {
    "components_real": ["USBResetSequencer", "USBDevice (every 8th run: sequencer wired inside a complete device, judged at the UTMI pins)"],
    "components_stubbed": ["UTMI PHY line_state / VBUS, host signalling, strap inputs (models.line_state.LineState)"],
    "assumptions": ["line_state, VBUS and the strap inputs are synchronous to the 60 MHz clock",
                    "the three-pairs requirement is read as: after the device chirp the input contains K>=150, later J>=150, three times "
                    "(runs may be separated by anything); the DUT is stricter",
                    "'only after a bus reset in which it has driven its chirp K and then observed three pairs' is evaluated per episode: the "
                    "justifying handshake must belong to the most recent reset (a handshake that already led to HS operation, or that was followed "
                    "by a suspend or by a newer reset without a device chirp, justifies nothing later); 'a suspend entered at high speed' means the "
                    "device operated at HS until the 3 ms + 200 us suspend detection that raised `suspended`",
                    "'3 ms SE0 followed by 200 us of non-idle' is read weakly: non-idle when the reset is reported",
                    "'leaves high speed within two cycles' is read as: HS operation and restriction coexist for at most 2 consecutive cycles"],
    "rule": "one template per run (FS/LS reset bursts around 150/300 cycles; full HS handshake with good / short / two-pair / glitched / "
            "missing / at-the-deadline host chirps; HS suspend-or-reset after 3 ms SE0; FS suspend after 3 ms idle; resume / reset from "
            "suspend) with VBUS loss, soft disconnect, bus_busy stalls and speed-restriction toggles placed at random and at targeted points. "
            "Every 5th run (by index) is a multi-episode history instead: a first reset + handshake, then a chain of further episodes chosen from "
            "the intended device state within a cycle budget (HS: reset after 3 ms SE0 / suspend / VBUS bounce / restriction pulse; suspended: "
            "resume / reset with or without a speed restriction / VBUS bounce; FS: reset + handshake / 3 ms idle suspend / traffic), each later "
            "handshake answered independently (good, one pair, two pairs, short, glitched, nothing). Goals are stratified by the run index, not "
            "the seed: 'suspend2' (two suspends; the ways the first is left {restricted reset, reset + handshake, resume} x the second is left "
            "{resume, reset} all occur), 'handshake2' (a second handshake reached via HS reset / HS suspend + reset / any route, mostly with "
            "fewer than three pairs), 'free' (unbiased chain; thorough tier budgets up to 1.3 M cycles allow a failed handshake between two "
            "suspends)",
}
TIERS = {"quick": {"runs": 230, "wall": 75, "chunk": 2, "shrink_budget": 32},
         "thorough": {"runs": 2800, "wall": 900, "chunk": 4, "shrink_budget": 64}}

HIGH, FULL, LOW = 0, 1, 2
T_2P5US, T_5US, T_200US, T_2MS, T_2P5MS, T_3MS = 150, 300, 12000, 120000, 150000, 180000


# --------------------------------------------------------------------------------------------------
# scenario generation
# --------------------------------------------------------------------------------------------------
def _seg(ls, n):
    return {"op": "seg", "ls": ls, "n": int(n)}


def _set(pin, v):
    return {"op": "set", "pin": pin, "v": int(v)}


def _near(rng, n, spread=4):
    return n + rng.randint(-spread, spread)


def _se0_burst(rng, ops, idle, kinds):
    k = rng.choice(kinds)
    if k == "near150":
        ops.append(_seg(SE0, _near(rng, 150)))
    elif k == "near300":
        ops.append(_seg(SE0, _near(rng, 300)))
    elif k == "glitched":
        ops.append(_seg(SE0, rng.randint(100, 299)))
        ops.append(_seg(rng.choice([idle, K_FS, SE1]), rng.randint(1, 3)))
        ops.append(_seg(SE0, _near(rng, 300, 8)))
    elif k == "short":
        ops.append(_seg(SE0, rng.randint(1, 140)))
    else:
        ops.append(_seg(SE0, rng.randint(310, 900)))


def _host_chirps(rng, ops, variant):
    """ host response after the device chirp; returns True if the train is meant to be sufficient """
    def state_len(short_ok=False):
        r = rng.random()
        if short_ok and r < 0.5:
            return rng.randint(138, 151)
        if r < 0.5:
            return rng.randint(152, 160)
        return rng.choice([200, 600, 3000])
    if variant == "good":
        for _ in range(rng.choice([3, 3, 4, 6])):
            ops.append(_seg(K_FS, state_len()))
            ops.append(_seg(J_FS, state_len()))
    elif variant == "short":
        bad = rng.randrange(6)
        for i in range(3):
            for j, ls in enumerate((K_FS, J_FS)):
                ops.append(_seg(ls, rng.randint(120, 149) if 2 * i + j == bad else state_len()))
    elif variant == "two_pairs":
        for _ in range(2):
            ops.append(_seg(K_FS, state_len()))
            ops.append(_seg(J_FS, state_len()))
        if rng.random() < 0.5:
            ops.append(_seg(K_FS, state_len()))
    elif variant == "one_pair":
        ops.append(_seg(K_FS, state_len()))
        ops.append(_seg(J_FS, state_len()))
        if rng.random() < 0.5:
            ops.append(_seg(K_FS, state_len()))
    elif variant == "glitched":
        for i in range(3):
            for ls in (K_FS, J_FS):
                if rng.random() < 0.4:
                    ops.append(_seg(ls, rng.randint(20, 149)))
                    ops.append(_seg(rng.choice([SE0, SE1, K_FS if ls == J_FS else J_FS]), rng.randint(1, 3)))
                    ops.append(_seg(ls, rng.choice([rng.randint(100, 149), rng.randint(152, 400)])))
                else:
                    ops.append(_seg(ls, state_len()))
    ops.append(_seg(SE0, rng.randint(20, 400)))


# ---- multi-episode histories -------------------------------------------------------------------------------------
# One run chains several reset / handshake / suspend episodes, so that every HS entry has to be justified by ITS OWN
# episode.  The generator tracks only the *intended* device state (to keep the stimulus meaningful); the oracle never
# uses it.  Costs are in cycles (the 2 ms device chirp, the 2.5 ms fallback, 3 ms + 200 us at HS, 3 ms FS idle).
MULTI_EVERY = 5
_COST_HANDSHAKE, _COST_FALLBACK, _COST_HS_3MS, _COST_FS_SUSP, _COST_CHEAP = 124000, 152000, 193000, 182000, 3000
_BAD_VARIANTS = ("one_pair", "two_pairs", "short", "glitched", "none")
# weights per goal: (handshake2, suspend2, free)
_W = {
    "HS": [("hs_reset", (6, 1, 3)), ("hs_suspend", (3, 10, 3)), ("vbus_bounce", (0.4, 0.4, 1)),
           ("restrict_pulse", (0.4, 0.4, 1)), ("hs_life", (0.4, 0.4, 1))],
    "SUSP_HS": [("resume", (2, 3, 3)), ("reset", (7, 6, 4))],
    "FS": [("fs_reset", (7, 1.5, 3)), ("fs_suspend", (2, 8, 3)), ("fs_traffic", (0.5, 0.5, 1))],
    "SUSP_FS": [("resume", (3, 7, 3)), ("reset", (6, 3, 3))],
}
_GOALS = ("handshake2", "suspend2", "free")


def _wchoice(rng, pairs):
    total = sum(w for _, w in pairs)
    r = rng.random() * total
    for name, w in pairs:
        r -= w
        if r < 0:
            return name
    return pairs[-1][0]


def _multi_handshake(rng, ops, variant, start_ls=SE0, start_max=400):
    """ device chirp (waited for), then the host response `variant`; returns the intended resulting state """
    ops.append({"op": "until", "event": "chirp_start", "ls": start_ls, "max": start_max, "after": 0})
    ops.append({"op": "until", "event": "chirp_end", "ls": rng.choice([K_FS, K_FS, SE0]), "max": 121000, "after": 0})
    ops.append(_seg(rng.choice([SE0, J_FS, K_FS]), rng.randint(1, 3000)))
    if variant == "none":
        ops.append(_seg(rng.choice([SE0, J_FS]), rng.choice([2000, 20000])))
    else:
        _host_chirps(rng, ops, variant)
    if variant == "good":
        return "HS"
    # the host gives up: wait until the device has left chirp mode (falls back at 2.5 ms; returns at once if it is at HS)
    ops.append({"op": "until", "event": "settled", "ls": rng.choice([SE0, J_FS]), "max": T_2P5MS + 900, "after": rng.randint(5, 300)})
    ops.append(_seg(J_FS, rng.randint(10, 300)))
    return "FS"


def _gen_multi(rng, tier, index):
    k = index // MULTI_EVERY
    quick = tier == "quick"
    # stratified by the run index (not by the seed): the goal, and for the goal-directed runs the way the first episode is
    # left and the second one ends, cycle through all combinations
    if k % 2 == 0:
        goal, j = "suspend2", k // 2
        plan = {"susp1_exit": ("reset_restricted", "reset_handshake", "resume")[j % 3], "susp2_exit": ("resume", "reset")[(j // 3) % 2]}
    elif k % 4 == 1:
        goal, j = "handshake2", k // 4
        plan = {"route": ("hs_reset", "hs_suspend", "any")[j % 3]}
    else:
        goal, plan = "free", {}
    gi = _GOALS.index(goal)
    budget = 645000 if quick else rng.choice([645000, 645000, 800000, 1000000, 1300000])
    pins = {"vbus_connected": 1, "low_speed_only": 0, "full_speed_only": 0, "disconnect": 0, "bus_busy": 0}
    faults_ok = rng.random() > 0.15
    ops = [_seg(J_FS, rng.randint(4, 400))]
    restricted = False
    n_susp = 0
    n_hs = 0

    def variant_for(n):
        if n == 0:
            return "good" if (goal != "free" or rng.random() < 0.8) else rng.choice(_BAD_VARIANTS)
        if goal == "handshake2":
            v = _wchoice(rng, [("good", 3), ("one_pair", 2.5), ("two_pairs", 2), ("short", 1.5), ("glitched", 0.5), ("none", 0.5)])
        else:
            v = _wchoice(rng, [("good", 5), ("one_pair", 1), ("two_pairs", 1), ("short", 1), ("glitched", 1), ("none", 1)])
        return "short" if (v == "glitched" and not faults_ok) else v

    def hs_cost(v):
        return _COST_HANDSHAKE + (0 if v == "good" else _COST_FALLBACK)

    # episode 1: reset from full speed, handshake
    v = variant_for(0)
    ops.append(_seg(SE0, rng.randint(301, 900)))
    state = _multi_handshake(rng, ops, v)
    spent = hs_cost(v)
    n_hs += 1
    for _ in range(12):
        if quick and ((goal == "handshake2" and n_hs >= 2) or (goal == "suspend2" and n_susp >= 2 and state in ("HS", "FS"))):
            break                                   # quick tier: the planned second episode is complete
        v = variant_for(n_hs)
        if spent + hs_cost(v) > budget and state in ("SUSP_HS", "SUSP_FS"):
            v = "good"                              # a failed handshake costs 2.5 ms more; keep within the budget
        cost = {"hs_reset": _COST_HS_3MS + hs_cost(v), "hs_suspend": _COST_HS_3MS, "fs_suspend": _COST_FS_SUSP,
                "fs_reset": hs_cost(v) if not restricted else _COST_CHEAP, "reset": hs_cost(v)}
        opts = [(name, w[gi]) for name, w in _W[state]
                if spent + cost.get(name, _COST_CHEAP) <= budget and (faults_ok or name not in ("vbus_bounce", "restrict_pulse"))]
        if not any(cost.get(name, _COST_CHEAP) > _COST_CHEAP or name == "resume" for name, _ in opts):
            break                                   # nothing but decoration fits any more
        what = _wchoice(rng, opts)
        # goal-directed overrides (only where the planned step is admissible in this state)
        if goal == "handshake2" and state == "HS" and n_hs == 1 and plan["route"] != "any":
            what = plan["route"]
        if goal == "suspend2" and state == "HS" and n_susp == 0:
            what = "hs_suspend"
        restrict_now = False
        if state in ("SUSP_HS", "SUSP_FS"):
            if goal == "suspend2" and n_susp == 1:
                e = plan["susp1_exit"]
                what = "resume" if e == "resume" else "reset"
                restrict_now = e == "reset_restricted"
            elif goal == "suspend2" and n_susp == 2:
                what = plan["susp2_exit"]
            elif goal == "handshake2":
                what = "reset" if rng.random() < 0.85 else what
            elif what == "reset":
                restrict_now = rng.random() < 0.3
            if what == "reset" and not restrict_now and not restricted and spent + hs_cost(v) > budget:
                what = "resume"
        spent += cost.get(what, _COST_CHEAP) if not (what == "reset" and (restrict_now or restricted)) else _COST_CHEAP

        if state == "HS":
            if what in ("hs_reset", "hs_suspend"):
                ops.append(_seg(rng.choice([J_FS, K_FS]), rng.randint(1, 20)))
                ops.append(_seg(SE0, T_3MS + rng.randint(0, 40)))
                if what == "hs_suspend":
                    ops.append({"op": "until", "event": "suspend", "ls": J_FS, "max": T_200US + 400, "after": rng.randint(5, 500)})
                    state = "SUSP_HS"
                    n_susp += 1
                elif goal == "free" and faults_ok and rng.random() < 0.2:
                    # a speed restriction arrives inside the 200 us discrimination window: no chirp may follow
                    ops.append(_seg(SE0, rng.randint(1, 11000)))
                    ops.append(_set("full_speed_only", 1))
                    ops.append(_seg(SE0, T_200US + 400))
                    ops.append(_seg(J_FS, rng.randint(10, 300)))
                    restricted = True
                    state = "FS"
                    spent -= hs_cost(v)
                else:
                    state = _multi_handshake(rng, ops, v, start_ls=rng.choice([SE0, SE0, K_FS]), start_max=T_200US + 400)
                    n_hs += 1
            elif what == "vbus_bounce":
                ops.append(_set("vbus_connected", 0))
                ops.append(_seg(rng.choice([SE0, J_FS]), rng.randint(1, 500)))
                ops.append(_set("vbus_connected", 1))
                ops.append(_seg(J_FS, rng.randint(10, 300)))
                state = "FS"
            elif what == "restrict_pulse":
                ops.append(_set("full_speed_only", 1))
                ops.append(_seg(SE0, rng.randint(1, 30)))
                restricted = rng.random() < 0.5
                if not restricted:
                    ops.append(_set("full_speed_only", 0))
                ops.append(_seg(J_FS, rng.randint(5, 400)))
                state = "FS"
            else:
                for _ in range(rng.randint(1, 3)):
                    ops.append(_seg(SE0, rng.randint(10, 3000)))
                    ops.append(_seg(rng.choice([J_FS, K_FS]), rng.randint(1, 40)))
        elif state in ("SUSP_HS", "SUSP_FS"):
            if faults_ok and rng.random() < 0.12:
                ops.append(_set("vbus_connected", 0))                   # VBUS bounces while suspended
                ops.append(_seg(J_FS, rng.randint(10, 300)))
                ops.append(_set("vbus_connected", 1))
                ops.append(_seg(J_FS, rng.randint(10, 300)))
            if what == "resume":
                ops.append(_seg(K_FS, rng.randint(2, 2000)))
                if state == "SUSP_HS":
                    ops.append(_seg(SE0, rng.randint(10, 2000)))
                    state = "HS"
                else:
                    ops.append(_seg(J_FS, rng.randint(10, 600)))
                    state = "FS"
            else:
                if restrict_now and not restricted:
                    ops.append(_set("full_speed_only", 1))
                    restricted = True
                if restricted:
                    ops.append(_seg(SE0, rng.randint(152, 400)))
                    ops.append(_seg(J_FS, rng.randint(10, 600)))
                    if rng.random() < 0.5:
                        ops.append(_set("full_speed_only", 0))
                        ops.append(_seg(J_FS, rng.randint(5, 100)))
                        restricted = False
                    state = "FS"
                else:
                    ops.append(_seg(SE0, rng.randint(152, 400)))
                    state = _multi_handshake(rng, ops, v)
                    n_hs += 1
        else:   # FS
            if what == "fs_reset":
                if restricted and rng.random() < 0.8:
                    ops.append(_set("full_speed_only", 0))
                    ops.append(_seg(J_FS, rng.randint(5, 100)))
                    restricted = False
                    spent += hs_cost(v) - _COST_CHEAP
                if restricted:
                    ops.append(_seg(SE0, rng.randint(301, 900)))
                    ops.append(_seg(J_FS, rng.randint(10, 300)))
                else:
                    ops.append(_seg(SE0, rng.randint(301, 900)))
                    state = _multi_handshake(rng, ops, v)
                    n_hs += 1
            elif what == "fs_suspend":
                ops.append({"op": "until", "event": "suspend", "ls": J_FS, "max": T_3MS + 40, "after": rng.randint(1, 2000)})
                state = "SUSP_FS"
                n_susp += 1
            else:
                for _ in range(rng.randint(1, 3)):
                    ops.append(_seg(rng.choice([K_FS, SE0]), rng.randint(1, 140)))
                    ops.append(_seg(J_FS, rng.randint(2, 1500)))
    ops.append(_seg(J_FS if state in ("FS", "SUSP_FS", "SUSP_HS") else SE0, rng.randint(20, 400)))
    ops.append(_seg(J_FS, rng.randint(4, 60)))
    return {"engine": ENGINE, "config": {"template": "multi_" + goal, "pins": pins, "plan": plan}, "ops": ops}


DEVICE_EVERY = 8        # every 8th run (index % 8 == 5) is executed on a complete USBDevice instead of the bare sequencer


def gen(rng, tier, index):
    scn = _gen_single(rng, tier, index)
    if index % DEVICE_EVERY == 5:
        # Device-level run: the same history is played to a complete USBDevice (ULPI timing: always_fs off, 60 MHz) and
        # judged at its UTMI pins (op_mode / xcvr_select / term_select / tx_valid) and its reset_detected / suspended
        # outputs, so that the wiring of the sequencer inside USBDevice is covered too.  Soft-disconnect requests are left
        # out there: USBDevice gates term_select with `connect`, which the statement does not talk about.
        scn["config"]["dut"] = "device"
        scn["config"]["pins"]["disconnect"] = 0
        scn["ops"] = [op for op in scn["ops"] if not (op["op"] == "set" and op["pin"] == "disconnect")]
    return scn


def _gen_single(rng, tier, index):
    if index % MULTI_EVERY == 0:
        return _gen_multi(rng, tier, index)
    tmpl = rng.choice(["fs_bursts", "fs_bursts", "handshake", "handshake", "handshake", "timeout", "deadline", "deadline",
                       "fs_suspend", "fs_suspend", "hs_then_3ms", "hs_then_3ms", "hs_then_3ms"])
    low = tmpl in ("fs_bursts", "fs_suspend") and rng.random() < 0.3
    idle = 2 if low else J_FS           # LS idle (J) is line_state 10
    kstate = 1 if low else K_FS
    pins = {"vbus_connected": 1, "low_speed_only": int(low), "full_speed_only": 0, "disconnect": 0, "bus_busy": 0}
    ops = []
    faults_ok = rng.random() > 0.15
    if rng.random() < 0.2:
        pins["vbus_connected"] = 0
        ops.append(_seg(idle, rng.randint(5, 200)))
        ops.append(_set("vbus_connected", 1))
    ops.append(_seg(idle, rng.randint(4, 400)))

    if tmpl == "fs_bursts":
        if not low:
            ops.insert(0, _set("full_speed_only", 1))
        for _ in range(rng.randint(3, 9)):
            _se0_burst(rng, ops, idle, ["near150", "near300", "near300", "glitched", "short", "long"])
            ops.append(_seg(idle, rng.randint(2, 1500)))
            r = rng.random()
            if faults_ok and r < 0.15:
                ops.append(_set("vbus_connected", 0))
                ops.append(_seg(rng.choice([SE0, idle]), rng.randint(1, 500)))
                ops.append(_set("vbus_connected", 1))
                ops.append(_seg(rng.choice([SE0, idle]), rng.randint(1, 320)))
                ops.append(_seg(idle, rng.randint(2, 100)))
            elif faults_ok and r < 0.3:
                ops.append(_set("disconnect", 1))
                ops.append(_seg(idle, rng.randint(1, 400)))
                ops.append(_seg(SE0, rng.randint(100, 400)))
                ops.append(_set("disconnect", 0))
                ops.append(_seg(idle, rng.randint(200, 600)))
        if not low and rng.random() < 0.3:
            # lift the restriction and let one reset start a handshake that is then abandoned by the host
            ops.append(_set("full_speed_only", 0))
            ops.append(_seg(SE0, rng.randint(300, 330)))
            ops.append(_seg(rng.choice([SE0, J_FS]), rng.randint(10, 3000)))

    elif tmpl in ("handshake", "timeout", "deadline", "hs_then_3ms"):
        if faults_ok and rng.random() < 0.3:
            ops.append(_set("bus_busy", 1))
        _se0_burst(rng, ops, idle, ["near300", "long", "long"])
        ops.append({"op": "until", "event": "chirp_start", "ls": SE0, "max": rng.choice([40, 400]), "after": 0})
        ops.append(_set("bus_busy", 0))
        # device chirp: the PHY reports K while the device drives it
        ops.append({"op": "until", "event": "chirp_end", "ls": rng.choice([K_FS, K_FS, SE0]), "max": 121000, "after": 0})
        if tmpl == "timeout":
            ops.append(_seg(rng.choice([SE0, J_FS]), rng.choice([2000, 60000])))
            if rng.random() < 0.5:
                _host_chirps(rng, ops, rng.choice(["short", "two_pairs", "glitched"]))
            ops.append({"op": "until", "event": "hs", "ls": rng.choice([SE0, J_FS, K_FS]), "max": T_2P5MS + 900, "after": 0})
            ops.append(_seg(J_FS, rng.randint(20, 400)))
        elif tmpl == "deadline":
            delta = rng.choice([-2, -1, 0, 0, 0, 1, 2])
            first = rng.random() < 0.5
            if first:
                # silence, then the first host K exactly around the 2.5 ms deadline, then silence again
                ops.append(_seg(SE0, T_2P5MS - 1 + delta))
                ops.append(_seg(K_FS, rng.choice([1, 3, 200, 3000])))
            else:
                # a valid K early, silence, then the J exactly around the deadline
                ops.append(_seg(SE0, rng.randint(10, 3000)))
                n0 = sum(o["n"] for o in ops[-1:])
                k = rng.choice([160, 3000])
                ops.append(_seg(K_FS, k))
                gap = T_2P5MS - 1 + delta - n0 - k
                ops.append(_seg(SE0, gap))
                ops.append(_seg(J_FS, rng.choice([1, 3, 200, 3000])))
            ops.append(_seg(SE0, rng.randint(700, 1500)))
            if rng.random() < 0.5:
                _host_chirps(rng, ops, "good")
            ops.append(_seg(SE0, rng.randint(10, 300)))
        else:
            ops.append(_seg(rng.choice([SE0, J_FS, K_FS]), rng.randint(1, 3000)))
            variant = rng.choice(["good", "good", "good", "short", "two_pairs", "glitched"]) if faults_ok else "good"
            if tmpl == "hs_then_3ms":
                variant = "good"
            if faults_ok and tmpl != "hs_then_3ms" and rng.random() < 0.15:
                ops.append(_set(rng.choice(["full_speed_only", "low_speed_only"]), 1))      # restriction mid-handshake
            _host_chirps(rng, ops, variant)
            if variant != "good" and rng.random() < 0.6:
                _host_chirps(rng, ops, "good")                                                  # the host retries properly
            # life at high speed (or wherever the device ended up)
            for _ in range(rng.randint(0, 4)):
                ops.append(_seg(SE0, rng.randint(10, 5000)))
                ops.append(_seg(rng.choice([J_FS, K_FS]), rng.randint(1, 40)))
            if faults_ok and tmpl != "hs_then_3ms" and rng.random() < 0.35:
                pin = rng.choice(["full_speed_only", "low_speed_only"])
                ops.append(_set(pin, 1))
                ops.append(_seg(SE0, rng.randint(1, 30)))
                if rng.random() < 0.5:
                    ops.append(_set(pin, 0))
                ops.append(_seg(J_FS, rng.randint(5, 400)))
            if tmpl == "hs_then_3ms":
                ops.append(_seg(rng.choice([J_FS, K_FS]), rng.randint(1, 20)))
                r = rng.random()
                if r < 0.2:
                    ops.append(_seg(SE0, rng.randint(T_3MS - 6, T_3MS - 1)))                # just too short, then traffic
                    ops.append(_seg(K_FS, rng.randint(1, 4)))
                    ops.append(_seg(SE0, rng.randint(100, 1000)))
                else:
                    ops.append(_seg(SE0, T_3MS + rng.randint(0, 40)))
                    if faults_ok and rng.random() < 0.4:
                        # a speed restriction arrives inside the 200 us discrimination window
                        ops.append(_seg(SE0, rng.randint(1, 11000)))
                        ops.append(_set(rng.choice(["full_speed_only", "low_speed_only"]), 1))
                    if rng.random() < 0.5:
                        # suspend: the bus floats to FS idle
                        ops.append({"op": "until", "event": "suspend", "ls": J_FS, "max": T_200US + 400, "after": rng.randint(5, 500)})
                        r2 = rng.random()
                        if r2 < 0.45:
                            ops.append(_seg(K_FS, rng.randint(2, 2000)))                        # resume
                            ops.append(_seg(SE0, rng.randint(10, 2000)))
                        elif r2 < 0.85:
                            ops.append(_seg(SE0, _near(rng, 150)))                               # reset from suspend
                            ops.append(_seg(rng.choice([SE0, J_FS]), rng.randint(10, 600)))
                        else:
                            ops.append(_set("vbus_connected", 0))
                            ops.append(_seg(J_FS, rng.randint(10, 300)))
                    else:
                        # reset: SE0 continues, the device must chirp again
                        ops.append({"op": "until", "event": "chirp_start", "ls": rng.choice([SE0, SE0, K_FS]), "max": T_200US + 400, "after": 0})
                        ops.append(_seg(K_FS, rng.randint(10, 600)))

    elif tmpl == "fs_suspend":
        if not low and rng.random() < 0.7:
            ops.insert(0, _set("full_speed_only", 1))
        r = rng.random()
        if r < 0.3:
            ops.append(_seg(rng.choice([kstate, SE0]), rng.randint(1, 3)))
            ops.append(_seg(idle, rng.randint(T_3MS - 6, T_3MS - 1)))                       # just too short
            ops.append(_seg(rng.choice([kstate, SE0]), rng.randint(1, 3)))
            ops.append(_seg(idle, rng.randint(50, 3000)))
        else:
            ops.append(_seg(idle, T_3MS + rng.randint(0, 30)))
            ops.append(_seg(idle, rng.randint(1, 2000)))
            r2 = rng.random()
            if r2 < 0.4:
                ops.append(_seg(kstate, rng.randint(1, 1200)))                                  # resume
                ops.append(_seg(idle, rng.randint(10, 600)))
                _se0_burst(rng, ops, idle, ["near150", "near300", "near300"])
            elif r2 < 0.85:
                ops.append(_seg(SE0, _near(rng, 150)))                                          # reset from suspend
                ops.append(_seg(rng.choice([SE0, idle]), rng.randint(1, 400)))
            else:
                ops.append(_set("vbus_connected", 0))
                ops.append(_seg(idle, rng.randint(10, 300)))
                ops.append(_set("vbus_connected", 1))
            ops.append(_seg(idle, rng.randint(10, 600)))
    ops.append(_seg(idle, rng.randint(4, 60)))
    return {"engine": ENGINE, "config": {"template": tmpl, "pins": pins}, "ops": ops}


# --------------------------------------------------------------------------------------------------
def _bench(kind="sequencer"):
    def factory():
        from luna.gateware.usb.usb2.reset import USBResetSequencer
        dut = USBResetSequencer()
        ins = {"line_state": dut.line_state, "vbus_connected": dut.vbus_connected, "low_speed_only": dut.low_speed_only,
               "full_speed_only": dut.full_speed_only, "disconnect": dut.disconnect, "bus_busy": dut.bus_busy,
               "tx_ready": dut.tx.ready}
        outs = {"bus_reset": dut.bus_reset, "suspended": dut.suspended, "speed": dut.current_speed,
                "op_mode": dut.operating_mode, "term": dut.termination_select, "tx_valid": dut.tx.valid}
        return make_bench(dut, clocks={"usb": 1 / 60e6}, main="usb", ins=ins, outs=outs)

    def device_factory():
        from amaranth import Elaboratable, Module, Signal
        from luna.gateware.usb.usb2.device import USBDevice
        from luna.gateware.interface.utmi import UTMIInterface

        class DeviceUnderLineState(Elaboratable):
            """ A complete USBDevice (no endpoints) on a UTMI bus, configured as USBDevice configures itself for a ULPI PHY
                (always_fs off, 60 MHz, bus_busy an input) through its public attributes. """
            def __init__(self):
                self.utmi = UTMIInterface()
                self.dev = USBDevice(bus=self.utmi)
                self.dev.always_fs = False
                self.dev.data_clock = 60e6
                self.bus_busy = Signal()
                self.dev.bus_busy = self.bus_busy
                self.vbus_connected = Signal()
                self.disconnect = Signal()

            def elaborate(self, platform):
                m = Module()
                m.submodules.dev = self.dev
                m.d.comb += [self.utmi.session_end.eq(~self.vbus_connected), self.dev.connect.eq(~self.disconnect)]
                return m

        top = DeviceUnderLineState()
        dev, utmi = top.dev, top.utmi
        ins = {"line_state": utmi.line_state, "vbus_connected": top.vbus_connected, "low_speed_only": dev.low_speed_only,
               "full_speed_only": dev.full_speed_only, "disconnect": top.disconnect, "bus_busy": top.bus_busy,
               "tx_ready": utmi.tx_ready}
        outs = {"bus_reset": dev.reset_detected, "suspended": dev.suspended, "speed": utmi.xcvr_select,
                "op_mode": utmi.op_mode, "term": utmi.term_select, "tx_valid": utmi.tx_valid}
        return make_bench(top, clocks={"usb": 1 / 60e6}, main="usb", ins=ins, outs=outs)
    if kind == "device":
        return cached_bench(("c19", "device"), device_factory)
    return cached_bench(("c19",), factory)


def _max_cycles(scn):
    n = 200
    for op in scn["ops"]:
        if op["op"] == "seg":
            n += op["n"]
        elif op["op"] == "until":
            n += op.get("max", 130000) + op.get("after", 0) + 2
    return n


def _is_hs(o):
    return o[2] == HIGH and o[3] == 0 and o[4] == 0


def _is_fsls_normal(o):
    return o[2] != HIGH and o[3] == 0 and o[4] == 1


def _count_pairs(ls, t0, t1):
    """ number of (K run >= 150, later J run >= 150) pairs in the line-state history clipped to [t0, t1] """
    pairs = 0
    want = K_FS
    ts, vs = ls.ts, ls.vs
    for i, (t, v) in enumerate(zip(ts, vs)):
        end = ts[i + 1] if i + 1 < len(ts) else t1 + 1
        a, b = max(t, t0), min(end, t1 + 1)
        if b - a >= T_2P5US and v == want:
            if want == J_FS:
                pairs += 1
            want = J_FS if want == K_FS else K_FS
    return pairs


def run(scn):
    bench = _bench(scn["config"].get("dut", "sequencer"))
    pins = dict(scn["config"]["pins"])
    actor = LineState(scn["ops"], pins)
    init = dict(pins)
    init.update({"line_state": J_FS, "tx_ready": 1})
    cap = _max_cycles(scn)
    log = bench.run([actor], cap, init=init)
    if not actor.done:
        raise RuntimeError(f"line-state script did not finish within {cap} cycles")
    n = log.cycles
    viol = Violations()
    probes = {p: 0 for p in PROBES}

    ls = Steps(actor.ls_changes)
    vbus = Steps(actor.pin_changes["vbus_connected"])
    low = Steps(actor.pin_changes["low_speed_only"])
    full = Steps(actor.pin_changes["full_speed_only"])
    outs = Steps(actor.out_changes)
    och = actor.out_changes
    # restriction history merged into one step function
    rts = sorted(set(low.ts) | set(full.ts))
    restr = Steps([(t, int(low.at(t) or full.at(t))) for t in rts])

    def se0_len(t):          # consecutive SE0 cycles ending at cycle t (inclusive)
        return ls.run_len(t, lambda v: v == SE0) if t >= 0 else 0

    hs_iv = outs.intervals(_is_hs, n)
    chirp_iv = outs.intervals(lambda o: o[3] == 2, n)
    # the device's chirp K: it transmits while the PHY is in chirp mode (a transmission in any other operating mode is an
    # ordinary packet to the PHY, not a chirp)
    txv_iv = outs.intervals(lambda o: o[5] == 1 and o[3] == 2, n)
    susp_iv = outs.intervals(lambda o: o[1] == 1, n)
    reset_iv = outs.intervals(lambda o: o[0] == 1, n)
    restr_iv = restr.intervals(lambda v: v == 1, n)

    def last_hs_before(t):
        best = None
        for a, b in hs_iv:
            if a < t:
                best = min(b, t) - 1
        return best

    # ---- C19.reset_only_after_se0 ---------------------------------------------------------------------------
    for a, b in reset_iv:
        if viol:
            break
        checked = 0
        t = a
        while t < b and checked < 2000:
            if not vbus.at(t) or (t > 0 and not vbus.at(t - 1)):
                # skip ahead to the next cycle where VBUS is present
                nxt = [x for x in vbus.ts if x > t]
                t = (nxt[0] + 1) if nxt else b
                continue
            checked += 1
            n_se0 = max(se0_len(t - 1), se0_len(t))
            o = outs.at(t)
            susp = bool(o[1]) or (t > 0 and bool(outs.at(t - 1)[1]))
            ok = n_se0 >= T_5US or (susp and n_se0 >= T_2P5US)
            ctx = "suspended" if susp else ("fs_ls" if o[2] != HIGH else "hs")
            if not ok:
                h = last_hs_before(t)
                if h is not None and T_200US <= t - h <= T_200US + 64:
                    ctx = "hs"
                    idle_now = ls.at(t) == J_FS and ls.at(t - 1) == J_FS
                    ok = se0_len(h - 1) >= T_3MS - 1 and not idle_now
            if not ok:
                viol.add("C19.reset_only_after_se0", t, f"bus_reset at cycle {t}: VBUS present, SE0 had lasted {n_se0} cycles, "
                         f"context {ctx} (speed={o[2]}, suspended={o[1]}); none of the admissible reset conditions holds",
                         context=ctx, se0_cycles=min(n_se0, 999))
                break
            if susp:
                probes["reset_from_suspend"] += 1
            elif ctx == "hs":
                probes["hs_reset"] += 1
            else:
                probes["reset_fs_active"] += 1
            t += 1

    # ---- C19.suspend_only_after_idle -------------------------------------------------------------------------
    susp_kinds = []                # (start, end, "hs" | "fs_ls") of every admissible suspend, in order
    for a, b in susp_iv:
        if viol and viol.items[0]["cycle"] < a:
            break
        o_prev = outs.at(a - 1) if a > 0 else (0, 0, FULL, 0, 1, 0)
        idle_code = 2 if o_prev[2] == LOW else J_FS
        n_idle = max(ls.run_len(a - 1, lambda v: v == idle_code), ls.run_len(a, lambda v: v == idle_code))
        ok = n_idle >= T_3MS
        kind = "fs_ls"
        if not ok:
            h = last_hs_before(a)
            if h is not None and T_200US <= a - h <= T_200US + 64:
                kind = "hs"
                ok = se0_len(h - 1) >= T_3MS - 1 and (ls.at(a - 1) == J_FS or ls.at(a) == J_FS)
        if not ok:
            viol.add("C19.suspend_only_after_idle", a, f"suspended rose at cycle {a} after only {n_idle} cycles of continuous idle "
                     f"(idle line state {idle_code:02b}); path {kind}", path=kind, idle_cycles=min(n_idle, 999999))
        else:
            probes["hs_suspend" if kind == "hs" else "fs_suspend"] += 1
            susp_kinds.append((a, b, kind))

    # ---- C19.leave_hs_on_restrict ------------------------------------------------------------------------------
    for a, b in hs_iv:
        for c, d in restr_iv:
            lo, hi = max(a, c), min(b, d)
            if hi - lo >= 1:
                probes["restrict_during_hs"] += 1
            if hi - lo > 2:
                viol.add("C19.leave_hs_on_restrict", lo + 2, f"operating at HS during cycles [{a},{b}) while a speed restriction is "
                         f"asserted during [{c},{d}): {hi - lo} consecutive cycles of overlap (more than 2)",
                         entered_restricted=bool(c < a))

    # ---- C19.no_chirp_when_restricted ----------------------------------------------------------------------------
    for a, b in chirp_iv:
        if a >= 8 and all(restr.at(k) for k in range(a - 8, a + 1)):
            h = last_hs_before(a)
            via = "hs_detect_window" if (h is not None and a - h <= T_200US + 80) else "other"
            viol.add("C19.no_chirp_when_restricted", a, f"chirp mode entered at cycle {a} although a speed restriction has been asserted "
                     f"continuously since cycle {restr.run_start(a, lambda v: v == 1)} (before the reset decision)", via=via)
        if any(c < b and d > a for c, d in restr_iv):
            probes["restrict_mid_handshake"] += 1
    for a, b in hs_iv:
        # restriction asserted inside the 200 us window after leaving HS
        if any(b <= c <= b + T_200US for c, d in restr_iv):
            probes["restrict_during_hs_detect_window"] += 1

    # ---- C19.hs_only_after_handshake ------------------------------------------------------------------------------
    # Every entry into HS operation is justified on its own, by the episode it belongs to:
    #  (B) it is the exit of a suspend that was entered at high speed, or
    #  (A) it ends the handshake of the MOST RECENT reset: the last device chirp before it was preceded by a reported bus reset,
    #      the input shows >= 3 K-J pairs since that chirp ended, and nothing has ended that episode in between (no earlier HS
    #      operation that used the same handshake, no suspend, no newer bus reset without a device chirp of its own).
    n_hs_entries = 0
    for a, b in hs_iv:
        # (B) resume from a suspend that was entered at HS
        resumed = False
        at_suspend_exit = None
        for sa, sb in susp_iv:
            if sb <= a <= sb + 3:
                at_suspend_exit = (sa, sb)
                h = last_hs_before(sa)
                if h is not None and sa - h <= T_200US + 80:
                    resumed = True
        if resumed:
            probes["hs_resume_from_suspend"] += 1
            n_hs_entries += 1
            continue
        # (A) reset -> device chirp -> three pairs
        chirps = [iv for iv in txv_iv if iv[1] <= a]
        resets = [iv for iv in reset_iv if iv[0] < a]
        reason = None
        if at_suspend_exit is not None:
            sa, sb = at_suspend_exit
            h = last_hs_before(sa)
            reason = f"resume from a suspend that was not entered at high speed (suspended during [{sa},{sb}); the device last operated " \
                     f"at HS {'never' if h is None else str(sa - h) + ' cycles'} before it) and no handshake since"
        elif not chirps:
            reason = "no device chirp before"
        else:
            ca, cb = chirps[-1]
            # the reset that started this episode: reported after the previous episode (HS operation or device chirp) ended
            prev_hs_end = max([y for x, y in hs_iv if y <= ca] + [y for x, y in txv_iv if y <= ca], default=-1)
            used = [(x, y) for x, y in hs_iv if cb <= x and y <= a]
            newer = [ra for ra, rb in resets if ra >= cb]
            susp_between = [(sa, sb) for sa, sb in susp_iv if cb <= sa < a]
            if not any(prev_hs_end <= ra < ca + 8 for ra, rb in resets):
                reason = "no bus reset reported before the device chirp"
            elif used:
                reason = f"handshake already used: the last device chirp ended at cycle {cb}, HS operation based on it was entered at " \
                         f"cycle {used[0][0]} and left at cycle {used[-1][1]}; no bus reset with a device chirp since"
            elif newer:
                reason = f"newer reset without a device chirp: bus reset reported at cycle {newer[-1]}, after the last device chirp ended at cycle {cb}"
            elif susp_between:
                reason = f"suspend since the last handshake: suspended during [{susp_between[-1][0]},{susp_between[-1][1]}) after the last " \
                         f"device chirp ended at cycle {cb}; no bus reset with a device chirp since"
            else:
                pairs = _count_pairs(ls, cb - 2, a)
                if pairs < 3:
                    reason = f"only {pairs} host K-J pair(s) with both states >= 150 cycles between the end of the device chirp " \
                             f"(cycle {cb}) and cycle {a}"
        if reason:
            viol.add("C19.hs_only_after_handshake", a, f"HS operation begins at cycle {a}: {reason}", reason=reason.split(" ")[0] + "_" + reason.split(" ")[1],
                     later_episode=bool(len(chirps) >= 2 or n_hs_entries >= 1))
        else:
            probes["hs_reached"] += 1
            if len(chirps) >= 2:
                probes["hs_after_later_handshake"] += 1
        n_hs_entries += 1

    # ---- C19.fallback_when_no_host_chirp ---------------------------------------------------------------------------
    for ca, cb in txv_iv:
        if outs.at(cb - 1)[3] != 2:
            continue                                   # not a chirp transmission
        deadline = cb + T_2P5MS
        if deadline + 600 >= n:
            continue                                   # the run ended before the bound
        # anything in the window that already ends the episode?
        settled = None
        for t, o in och:
            if cb <= t <= deadline + 600 and (_is_fsls_normal(o) or _is_hs(o)):
                settled = t
                break
        k_at = ls.at(deadline) in (K_FS, J_FS) and (ls.run_start(deadline, lambda v, x=ls.at(deadline): v == x) or 0) >= deadline - 3
        if k_at:
            probes["host_chirp_at_deadline"] += 1
        if settled is None:
            pairs = _count_pairs(ls, cb - 2, deadline + 600)
            viol.add("C19.fallback_when_no_host_chirp", deadline + 600, f"device chirp ended at cycle {cb}; {pairs} complete host K-J pairs by "
                     f"cycle {deadline + 600} (2.5 ms + 600 cycles) but the device is still in mode speed={outs.at(deadline + 600)[2]} "
                     f"op_mode={outs.at(deadline + 600)[3]} term={outs.at(deadline + 600)[4]} (neither FS/LS normal nor HS)",
                     line_change_at_deadline=bool(k_at), pairs=pairs)
        elif settled >= deadline - 2 and not _is_hs(outs.at(settled)):
            probes["fallback_timeout_reached"] += 1

    # ---- multi-episode probes (how often a LATER episode differs from an earlier one) -------------------------------
    first_hs = hs_iv[0][0] if hs_iv else None
    for i, (ca, cb) in enumerate(txv_iv):
        if i == 0 or outs.at(cb - 1)[3] != 2:
            continue
        probes["later_handshake"] += 1
        if first_hs is not None and first_hs < ca and 1 <= _count_pairs(ls, cb - 2, min(n - 1, cb + T_2P5MS)) <= 2:
            probes["later_handshake_fewer_pairs"] += 1
    for i, (sa, sb, kind) in enumerate(susp_kinds):
        by_reset = any(sb - 2 <= ra <= sb + 1 for ra, rb in reset_iv)
        if sb < n and kind == "hs" and by_reset:
            probes["hs_suspend_left_by_reset"] += 1
        if i == 0:
            continue
        probes["later_suspend"] += 1
        if kind != susp_kinds[i - 1][2]:
            probes["suspend_speed_change"] += 1
        if sb < n and kind == "fs_ls" and not by_reset and any(k2 == "hs" for _, _, k2 in susp_kinds[:i]):
            probes["fs_resume_after_hs_suspend"] += 1

    # ---- probes from the stimulus ----------------------------------------------------------------------------------
    for i, (t, v) in enumerate(zip(ls.ts, ls.vs)):
        end = ls.ts[i + 1] if i + 1 < len(ls.ts) else n
        d = end - t
        if v == SE0 and (140 <= d < 150 or 290 <= d < 300):
            probes["se0_just_too_short"] += 1
        if v in (K_FS, J_FS) and 120 <= d < 150 and any(x <= t < y + T_2P5MS for x, y in txv_iv):
            probes["short_chirp_state"] += 1
        if v in (J_FS, 2) and T_3MS - 8 <= d < T_3MS:
            probes["idle_just_too_short"] += 1
        if d <= 3 and 0 < i < len(ls.ts) - 1 and ls.vs[i - 1] == ls.vs[i + 1] and any(y <= t < y + T_2P5MS for x, y in txv_iv):
            probes["glitched_chirp"] += 1
    for ca, cb in txv_iv:
        if _count_pairs(ls, cb - 2, min(n - 1, cb + T_2P5MS)) == 2:
            probes["two_pairs_only"] += 1
    probes["vbus_loss"] = sum(1 for v in vbus.vs[1:] if v == 0)
    probes["soft_disconnect"] = sum(1 for t, v in actor.pin_changes["disconnect"][1:] if v == 1)
    probes["bus_busy_stall"] = sum(1 for t, v in actor.pin_changes["bus_busy"] if v == 1)
    probes["low_speed"] = int(any(o[2] == LOW for t, o in och))
    if scn["config"].get("dut") == "device":
        probes["device_level_run"] = 1
        probes["device_level_hs_reached"] = int(probes["hs_reached"] > 0)

    fault_keys = ["short_chirp_state", "two_pairs_only", "glitched_chirp", "restrict_during_hs", "restrict_during_hs_detect_window",
                  "restrict_mid_handshake", "se0_just_too_short", "idle_just_too_short", "vbus_loss", "soft_disconnect",
                  "bus_busy_stall", "host_chirp_at_deadline"]
    names = {"short_chirp_state": "short_chirp", "glitched_chirp": "line_glitch", "restrict_during_hs": "speed_restrict",
             "restrict_during_hs_detect_window": "speed_restrict_in_detect_window", "restrict_mid_handshake": "speed_restrict_mid_handshake"}
    faults = {names.get(k, k): probes[k] for k in fault_keys if probes[k]}
    outcome = sorted(k for k in ("hs_reached", "hs_resume_from_suspend", "fallback_timeout_reached", "hs_suspend", "hs_reset",
                                 "fs_suspend", "reset_from_suspend", "reset_fs_active", "later_handshake_fewer_pairs",
                                 "hs_after_later_handshake", "suspend_speed_change", "hs_suspend_left_by_reset",
                                 "fs_resume_after_hs_suspend") if probes[k])
    sig = hashlib.blake2b(repr((scn["config"]["template"], sorted(log.fsm_vectors), sorted(faults), outcome)).encode(),
                          digest_size=8).hexdigest()
    return {"violations": viol.items, "cycles": log.cycles, "faults": faults, "probes": probes, "sig": sig,
            "nontrivial": bool(outcome), "digest": log.digest, "fsm": len(log.fsm_vectors)}
