"""
C09 -- GET_DESCRIPTOR returns exactly the requested descriptor bytes.

DUTs (a) GetDescriptorHandlerBlock / GetDescriptorHandlerDistributed / GetDescriptorHandlerMux standalone, read the way
StandardRequestHandler + USBDataPacketGenerator read them (start strobe with start_position a multiple of the packet size;
the stream is consumed with ready low while idle / sending the PID and a tx_ready pattern afterwards);
(b) end to end through a complete USBDevice (V1 / V2 timing) whose control endpoint uses the block-ROM handler, the
block-RAM-free handler (avoid_blockram) or -- with runtime (non-bytes) descriptors -- the multiplexer of both.

Random descriptor collections (types 0..15, sparse indices, lengths 1..300, exact multiples of the packet size and powers of two
over-represented); requests for existing and non-existing (type, index) with wLength <, =, > length; lost handshakes (the same
piece is read again).  The oracle slices the descriptor table itself.
"""

import os
import json
import random
import hashlib

from dsim.kernel import make_bench, cached_bench, Violations, GenActor
from models.usb2_wire import gen_idle_data
from models.usb2 import UTMIHost
from models.usb2_ctrl import Txn, setup_bytes, is_data
from engines.usb2_device import IDLE_INIT, UTMI_INS, UTMI_OUTS

PROPERTY = "C09"
ENGINE = "usb2_device"
CLOCK_HZ = 60e6
RULES = {
    "C09.bytes": "the concatenated data stage equals descriptor[:min(wLength, len)]",
    "C09.packet_size": "no data-stage packet is longer than the max packet size",
    "C09.termination": "the stage ends with a short packet, or with a ZLP when the total is a non-zero multiple of the packet "
                       "size below wLength",
    "C09.stall_when_absent": "a request for a descriptor that does not exist is STALLed without data",
    "C09.no_stall_when_present": "a request for an existing descriptor is not STALLed",
    "C09.no_extra_packets": "nothing further is offered after a piece has been delivered (until the next IN token / start)",
}
PROBES = ["len_multiple_of_mps_wlength_gt", "len_power_of_two", "wlength_lt_len", "wlength_eq_len", "wlength_gt_len",
          "absent_type", "absent_index", "sparse_indices", "piece_reread", "multi_piece", "zlp_expected", "device_block",
          "device_dist", "device_mux", "alone_block", "alone_dist", "alone_mux", "runtime_descriptor_read", "one_byte_piece"]
META = {
    "components_real": ["GetDescriptorHandlerBlock", "GetDescriptorHandlerDistributed", "GetDescriptorHandlerMux",
                        "ConstantStreamGenerator (USBDescriptorStreamGenerator)", "StandardRequestHandler", "USBControlEndpoint",
                        "USBDevice", "USBDataPacketGenerator", "OneHotMultiplexer"],
    "components_stubbed": ["stand-alone: the reader (StandardRequestHandler's start/start_position protocol + the transmitter's "
                           "ready behaviour) is a Python actor", "end-to-end: UTMI PHY + host (models.usb2.UTMIHost)"],
    "assumptions": ["stand-alone reader: value/length/start_position are stable >= 2 cycles before the start strobe; ready is low "
                    "until the first byte has been seen and for >= 1 cycle afterwards (PID), as USBDataPacketGenerator does",
                    "wLength >= 1 stand-alone (the control endpoint never asks for data when wLength = 0)",
                    "the host always completes the status stage of a transfer before the next request (end to end)",
                    "descriptor lengths 1..300 (a zero-length constant cannot be elaborated)",
                    "runtime descriptors are USBDescriptorStreamGenerator factories"],
    "rule": "per run one random descriptor collection and packet size, 3-10 GET_DESCRIPTOR reads (existing / absent; wLength "
            "classes; re-read pieces; tx_ready patterns); 70 % stand-alone handlers, 30 % end to end",
}
TIERS = {"quick": {"runs": 2000, "wall": 90}, "thorough": {"runs": 36000, "wall": 900}}

MAX_PIECES = 48


# ------------------------------------------------------------------------------------------------
# scenario generation
# ------------------------------------------------------------------------------------------------
def _length(rng, mps):
    r = rng.random()
    if r < 0.35:
        return mps * rng.choice([1, 1, 2, 2, 3, 4])                 # exact multiples of the packet size
    if r < 0.45:
        return rng.choice([2, 4, 8, 16, 32, 64, 128, 256])           # powers of two
    if r < 0.55:
        return max(1, mps * rng.choice([1, 2, 3]) + rng.choice([-1, 1]))
    if r < 0.62:
        return rng.choice([1, 2, 3])
    return rng.randint(2, 300 if rng.random() < 0.3 else 80)


def _collection(rng, mps, mode):
    entries = []
    types = rng.sample(range(0 if rng.random() < 0.15 else 1, 16), rng.randint(1, 4))
    for t in types:
        style = rng.random()
        if style < 0.5:
            idxs = list(range(rng.randint(1, 3)))                     # consecutive from 0
        elif style < 0.8:
            idxs = sorted(rng.sample(range(0, 8), rng.randint(1, 3)))  # sparse
        else:
            idxs = sorted(rng.sample([0, 1, 2, 5, 9, 17, 100, 200, 255], rng.randint(1, 3)))
        for i in idxs:
            n = _length(rng, mps)
            data = bytes([n & 0xFF, t]) + bytes(rng.getrandbits(8) for _ in range(max(0, n - 2)))
            entries.append([t, i, data[:n].hex(), False])
    if mode == "mux":
        if len(entries) == 1:
            n = _length(rng, mps)
            t = rng.choice([x for x in range(1, 16) if x not in types])
            entries.append([t, 0, bytes(rng.getrandbits(8) for _ in range(n)).hex(), False])
        for e in rng.sample(entries, rng.randint(1, len(entries) - 1)):
            e[3] = True
        # a language descriptor of the user's own (string index 0), fixed or runtime: StandardRequestHandler splits the
        # collection into two sub-collections, each of which may add a default one by itself
        if rng.random() < 0.4 and not any(e[0] == 3 and e[1] == 0 for e in entries):
            n = rng.choice([4, 6, 6, 8, 10])
            langs = bytes([n, 3]) + bytes(rng.getrandbits(8) for _ in range(n - 2))
            entries.append([3, 0, langs.hex(), rng.random() < 0.4])
    elif mode == "dist" and rng.random() < 0.3:
        for e in entries:
            e[3] = rng.random() < 0.4
    # GetDescriptorHandlerBlock cannot be elaborated when all of its descriptors are shorter than 4 bytes (IndexError in
    # bit_select): keep such collections out of the generator (reported as a limitation, not as a violation)
    fixed = [e for e in entries if not e[3]]
    if mode in ("block", "mux") and max(len(e[2]) // 2 for e in fixed) < 4:
        e = fixed[0]
        e[2] = (bytes.fromhex(e[2]) + bytes(rng.getrandbits(8) for _ in range(4)))[:rng.randint(4, 9)].hex()
    return entries


def _requests(rng, entries, mps, n, standalone, extra_keys=()):
    ops = []
    keys = [(e[0], e[1]) for e in entries] + list(extra_keys)
    lens = {(e[0], e[1]): len(e[2]) // 2 for e in entries}
    types = sorted(set(k[0] for k in keys))
    for _ in range(n):
        r = rng.random()
        if r < 0.74:
            t, i = rng.choice(keys)
        elif r < 0.84:                                     # type present, index absent
            t = rng.choice(types)
            i = rng.choice([x for x in list(range(0, 10)) + [254, 255] if (t, x) not in keys])
        elif r < 0.94:                                     # type absent
            t = rng.choice([x for x in range(0, 20) if x not in types] + [rng.randint(16, 255)])
            i = rng.choice([0, 0, 1, rng.randint(0, 255)])
        else:
            t, i = rng.randint(0, 255), rng.randint(0, 255)
        ln = lens.get((t, i), rng.choice([4, 18, mps]))
        q = rng.random()
        if q < 0.18:
            wl = rng.randint(1, max(1, ln - 1))
        elif q < 0.36:
            wl = ln
        elif q < 0.50:
            wl = ln + rng.choice([1, 1, mps, mps - 1 if mps > 1 else 1])
        elif q < 0.64:
            wl = mps * rng.randint(1, 6)
        elif q < 0.84:
            wl = rng.choice([64, 255, 256, 512, 0xFFFF, 1023, 1024])
        elif q < 0.90:
            wl = rng.choice([1, 2, mps, mps + 1])
        else:
            wl = rng.randint(1, 700)
        if not standalone and rng.random() < 0.04:
            wl = 0
        npieces = min(MAX_PIECES, ln // mps + 2)
        rereads = [1 if rng.random() < 0.12 else 0 for _ in range(npieces)] if rng.random() < 0.4 else []
        ops.append({"op": "get", "type": t, "index": i, "wlength": wl, "rereads": rereads})
    return ops


GROUP = 4       # consecutive scenario indices share one DUT configuration (collection, packet size, handler): elaboration
                # of a design costs more than simulating a scenario, and the bench cache re-uses it within a worker chunk


def gen(rng, tier, index):
    # the DUT configuration is drawn from a generator shared by GROUP consecutive indices (still a pure function of
    # VERIF_SEED and the index); everything else comes from this scenario's own generator
    grng = random.Random(f"{os.environ.get('VERIF_SEED', '0') or '0'}/C09/{tier}/group/{index // GROUP}")
    standalone = grng.random() < 0.7
    mode = grng.choice(["block", "dist", "dist", "mux"])
    mps = grng.choice([8, 8, 16, 32, 64, 64])
    entries = _collection(grng, mps, mode)
    variant = grng.choice(["V1", "V2"])
    cfg = {"dut": ("alone_" if standalone else "device_") + mode, "mps": mps, "entries": entries,
           "ready": rng.choice([[1], [1], [1, 0], [1, 1, 0], [0, 1], [rng.getrandbits(1) | (i == 3) for i in range(7)]]),
           "pid_cycles": rng.choice([1, 1, 2, 3]), "lead": rng.choice([2, 3, 6]), "pause": rng.choice([1, 2, 5, 12])}
    if not standalone:
        cfg.update({"variant": variant, "byte_period": rng.choice([1, 1, 2]), "pre": rng.choice([1, 2]),
                    "post": rng.choice([0, 1]), "txready": rng.choice(["always", "always", ["every", 2], ["every", 3]]),
                    "tok_gap": rng.choice([1, 2, 4]), "turn": rng.choice([1, 2, 4, 8]), "rest": rng.choice([2, 4, 10])})
    n = rng.randint(3, 8 if tier == "quick" else 14) if standalone else rng.randint(3, 6 if tier == "quick" else 10)
    extra = [(3, 0)] if not standalone and not any(e[0] == 3 and e[1] == 0 for e in entries) else []
    ops = _requests(rng, entries, mps, n, standalone, extra)
    cfg["idle_data"] = gen_idle_data(rng)
    return {"engine": ENGINE, "config": cfg, "ops": ops}


# ------------------------------------------------------------------------------------------------
# benches
# ------------------------------------------------------------------------------------------------
class _RuntimeDescriptor:
    """ A 'runtime' (non-bytes) descriptor: a factory for its stream generator, as the distributed handler expects. """

    def __init__(self, data):
        self.data = bytes(data)

    def __call__(self):
        from luna.gateware.usb.usb2.descriptor import USBDescriptorStreamGenerator
        return USBDescriptorStreamGenerator(self.data)


def _collections(entries, auto_language):
    from usb_protocol.emitters import DeviceDescriptorCollection
    allc = DeviceDescriptorCollection(automatic_language_descriptor=auto_language)
    fixed = DeviceDescriptorCollection(automatic_language_descriptor=auto_language)
    runtime = DeviceDescriptorCollection(automatic_language_descriptor=auto_language)
    for t, i, raw, rt in entries:
        data = bytes.fromhex(raw)
        allc.add_descriptor(_RuntimeDescriptor(data) if rt else data, index=i, descriptor_type=t)
        (runtime if rt else fixed).add_descriptor(_RuntimeDescriptor(data) if rt else data, index=i, descriptor_type=t)
    return allc, fixed, runtime


def _alone_bench(mode, mps, entries):
    def factory():
        from luna.gateware.usb.usb2.descriptor import (GetDescriptorHandlerBlock, GetDescriptorHandlerDistributed,
                                                        GetDescriptorHandlerMux)
        allc, fixed, runtime = _collections(entries, False)
        if mode == "block":
            dut = GetDescriptorHandlerBlock(allc, max_packet_length=mps)
        elif mode == "dist":
            dut = GetDescriptorHandlerDistributed(allc, max_packet_length=mps)
        else:
            dut = GetDescriptorHandlerMux()
            dut.add_descriptor_handler(GetDescriptorHandlerBlock(fixed, max_packet_length=mps))
            dut.add_descriptor_handler(GetDescriptorHandlerDistributed(runtime, max_packet_length=mps))
        ins = {"value": dut.value, "length": dut.length, "start": dut.start, "start_position": dut.start_position,
               "tx_ready": dut.tx.ready}
        outs = {"tx_valid": dut.tx.valid, "tx_first": dut.tx.first, "tx_last": dut.tx.last, "tx_payload": dut.tx.payload,
                "stall": dut.stall}
        return make_bench(dut, clocks={"usb": 1 / 60e6}, main="usb", ins=ins, outs=outs)
    return cached_bench(("c09-alone", mode, mps, json.dumps(entries)), factory)


def _device_bench(mode, mps, entries, variant):
    def factory():
        from luna.gateware.interface.utmi import UTMIInterface
        from luna.gateware.usb.usb2.device import USBDevice
        from luna.gateware.usb.usb2.control import USBControlEndpoint
        utmi = UTMIInterface()
        dev = USBDevice(bus=utmi)
        if variant == "V2":
            dev.always_fs = False
            dev.data_clock = 60e6
        allc, _, _ = _collections(entries, True)
        ep0 = USBControlEndpoint(utmi=dev.utmi, max_packet_size=mps)
        ep0.add_standard_request_handlers(allc, avoid_blockram=(mode == "dist"))
        dev.add_endpoint(ep0)
        ins = {n: getattr(utmi, n) for n in UTMI_INS}
        outs = {n: getattr(utmi, n) for n in UTMI_OUTS}
        ins.update(connect=dev.connect, full_speed_only=dev.full_speed_only, low_speed_only=dev.low_speed_only)
        b = make_bench(dev, clocks={"usb": 1 / 60e6 if variant == "V2" else 1 / 12e6}, main="usb", ins=ins, outs=outs)
        # the language descriptor that usb_protocol adds on its own when the collection has none
        has_lang = any(e[0] == 3 and e[1] == 0 for e in entries)
        b.auto_lang = None if has_lang else bytes(allc.get_descriptor_bytes(3, 0))
        return b
    return cached_bench(("c09-device", mode, mps, variant, json.dumps(entries)), factory)


# ------------------------------------------------------------------------------------------------
# the oracle shared by both DUT kinds: judges one transfer from the pieces the reader obtained
# ------------------------------------------------------------------------------------------------
class _Judge:
    def __init__(self, viol, probes, dut, mps, table, rt_keys):
        self.viol, self.probes, self.dut, self.mps, self.table, self.rt_keys = viol, probes, dut, mps, table, rt_keys
        self.prev = "none"           # how the previous request of this run ended (matters for latched state)
        self.failed = False

    def shape(self, rule, op, **kw):
        """ Small classification of a violation; deliberately coarse (details are in the message) so that one defect maps to
            one or two classes: which handler is configured, which sub-handler serves the descriptor, what was observed. """
        key = (op["type"], op["index"])
        desc = self.table.get(key)
        n = len(desc) if desc is not None else -1
        handler = self.dut.split("_")[1]
        served_by = "none" if desc is None else ("distributed" if handler == "dist" or (handler == "mux" and key in self.rt_keys)
                                                  else "block")
        s = {"served_by": served_by, "got": kw.get("got", "")}
        if rule in ("C09.termination", "C09.no_extra_packets", "C09.packet_size"):
            s["len_pow2"] = n > 0 and (n & (n - 1)) == 0
        else:
            s["handler"] = handler
        if rule == "C09.bytes":
            s["string0"] = key == (3, 0)
        return s

    def bad(self, rule, t, msg, op, **kw):
        self.viol.add(rule, t, f"[{self.dut}, mps {self.mps}] {msg}", **self.shape(rule, op, **kw))
        self.failed = True

    def expected(self, op):
        desc = self.table.get((op["type"], op["index"]))
        if desc is None:
            return None
        return desc[:min(op["wlength"], len(desc))]

    def note_request(self, op):
        p, mps = self.probes, self.mps
        desc = self.table.get((op["type"], op["index"]))
        if desc is None:
            p["absent_index" if any(k[0] == op["type"] for k in self.table) else "absent_type"] += 1
            return
        n, wl = len(desc), op["wlength"]
        p["wlength_lt_len" if wl < n else "wlength_eq_len" if wl == n else "wlength_gt_len"] += 1
        if n % mps == 0 and wl > n:
            p["len_multiple_of_mps_wlength_gt"] += 1
            p["zlp_expected"] += 1
        if n & (n - 1) == 0:
            p["len_power_of_two"] += 1
        if min(n, wl) > mps:
            p["multi_piece"] += 1
        if (op["type"], op["index"]) in self.rt_keys:
            p["runtime_descriptor_read"] += 1

    def piece(self, op, k, sp, res, t, reread):
        """ Judges piece k (offset sp) of a transfer.  res = {"kind": data|zlp|stall|none, "data": bytes}.
            Returns True if the host goes on reading. """
        exp = self.expected(op)
        what = f"GET_DESCRIPTOR type {op['type']} index {op['index']} wLength {op['wlength']} (mps {self.mps}), piece {k} at offset {sp}"
        if exp is None:
            if res["kind"] != "stall":
                self.bad("C09.stall_when_absent", t, f"{what}: descriptor does not exist but the handler answered {res['kind']} "
                         f"{res['data'].hex()} instead of STALL", op, got=res["kind"], piece=k)
            return False
        want = exp[sp:sp + self.mps]
        need_zlp = (sp == len(exp))
        if res["kind"] == "stall":
            self.bad("C09.no_stall_when_present", t, f"{what}: existing descriptor ({len(self.table[(op['type'], op['index'])])} "
                     f"bytes) was STALLed (previous request of this run: {self.prev})", op, got="stall", piece=k)
            return False
        if res["kind"] == "none":
            rule = "C09.termination" if need_zlp else "C09.bytes"
            self.bad(rule, t, f"{what}: no answer; expected {'a ZLP' if need_zlp else want.hex()}", op, got="none", piece=k)
            return False
        data = res["data"]
        if len(data) > self.mps:
            self.bad("C09.packet_size", t, f"{what}: packet of {len(data)} bytes", op, got="long", piece=k)
            return False
        if data != want:
            if need_zlp:
                self.bad("C09.termination", t, f"{what}: the descriptor's {len(exp)} bytes were delivered in full packets and wLength "
                         f"is larger, so a ZLP must end the stage; got {data.hex()}", op, got="data_instead_of_zlp", piece=k)
            else:
                self.bad("C09.bytes", t, f"{what}: expected {want.hex()} got {data.hex()}", op,
                         got=("reread_differs" if reread else "short" if want.startswith(data) else "wrong"), piece=k)
            return False
        if len(data) == 1:
            self.probes["one_byte_piece"] += 1
        # the host continues while it has seen only full packets and has not yet received wLength bytes
        return len(data) == self.mps and sp + len(data) < op["wlength"]


# ------------------------------------------------------------------------------------------------
def _run_alone(scn, viol, probes, faults):
    cfg = scn["config"]
    mode = cfg["dut"].split("_")[1]
    mps = cfg["mps"]
    entries = cfg["entries"]
    bench = _alone_bench(mode, mps, entries)
    table = {(e[0], e[1]): bytes.fromhex(e[2]) for e in entries}
    rt_keys = {(e[0], e[1]) for e in entries if e[3]}
    judge = _Judge(viol, probes, cfg["dut"], mps, table, rt_keys)
    probes[cfg["dut"]] += 1
    for t in sorted(set(k[0] for k in table)):
        idx = sorted(k[1] for k in table if k[0] == t)
        if idx != list(range(len(idx))):
            probes["sparse_indices"] += 1
            break
    ready_pat = cfg["ready"]
    state = {"t": 0, "done": False, "outcomes": set()}

    def reader():
        pins = {"value": 0, "length": 0, "start": 0, "start_position": 0, "tx_ready": 0}
        o = yield dict(pins)
        rp = 0
        for op in scn["ops"]:
            if op["wlength"] == 0:
                continue
            judge.note_request(op)
            pins.update(value=((op["type"] & 0xFF) << 8) | (op["index"] & 0xFF), length=op["wlength"], start_position=0)
            sp, k = 0, 0
            rereads = list(op.get("rereads", []))
            ended = "complete"
            while True:
                reread = False
                times = 1 + (rereads[k] if k < len(rereads) else 0)
                for attempt in range(times):
                    if attempt:
                        reread = True
                        probes["piece_reread"] += 1
                        faults["lost_handshake"] = faults.get("lost_handshake", 0) + 1
                    pins.update(start_position=sp, start=0, tx_ready=0)
                    for _ in range(cfg["lead"]):
                        o = yield dict(pins)
                        state["t"] += 1
                    pins["start"] = 1
                    st, got, res, pid_left, waited, anomalies = "IDLE", [], None, 0, 0, []
                    t0 = state["t"]
                    while res is None:
                        o = yield dict(pins)
                        state["t"] += 1
                        pins["start"] = 0
                        ready_was = pins["tx_ready"]
                        pins["tx_ready"] = 0
                        if o["stall"]:
                            if st == "IDLE" and not o["tx_valid"]:
                                res = {"kind": "stall", "data": b""}
                            else:
                                res = {"kind": "data", "data": bytes(got) + b"<stall strobe together with data>"}
                            break
                        if st == "IDLE":
                            if o["tx_valid"] and o["tx_first"]:
                                st, pid_left = "PID", cfg["pid_cycles"]
                            elif o["tx_valid"] and o["tx_last"]:
                                res = {"kind": "zlp", "data": b""}
                            else:
                                waited += 1
                                if waited > 24:
                                    res = {"kind": "none", "data": b""}
                        elif st == "PID":
                            pid_left -= 1
                            if pid_left <= 0:
                                st = "PAYLOAD"
                        else:
                            if ready_was:
                                if o["tx_valid"]:
                                    got.append(o["tx_payload"])
                                if o["tx_last"] or not o["tx_valid"]:
                                    res = {"kind": "data", "data": bytes(got)}
                            if len(got) > mps + 8:
                                res = {"kind": "data", "data": bytes(got)}
                        if res is None and st == "PAYLOAD":
                            pins["tx_ready"] = ready_pat[rp % len(ready_pat)]
                            rp += 1
                    # after the piece: CRC bytes (2 cycles), then the transmitter idles again; nothing more may be offered
                    extra = None
                    for q in range(cfg["pause"] + 3):
                        o = yield dict(pins)
                        state["t"] += 1
                        if o["stall"] and res["kind"] != "stall":
                            extra = extra or ("stall strobe", q)
                        if q >= 2 and o["tx_valid"] and (o["tx_first"] or o["tx_last"]) and res["kind"] != "none":
                            extra = extra or ("another packet offered", q)
                    cont = judge.piece(op, k, sp, res, t0, reread)
                    if not judge.failed and extra is not None and res["kind"] == "stall" and judge.expected(op) is None:
                        judge.bad("C09.stall_when_absent", state["t"], f"GET_DESCRIPTOR type {op['type']} index {op['index']}: "
                                  f"{extra[0]} {extra[1]} cycles after the STALL of a non-existing descriptor", op, got="extra_packet", piece=k)
                    if not judge.failed and extra is not None and res["kind"] in ("data", "zlp"):
                        judge.bad("C09.no_extra_packets", state["t"], f"GET_DESCRIPTOR type {op['type']} index {op['index']} wLength "
                                  f"{op['wlength']}: {extra[0]} {extra[1]} cycles after piece {k} was delivered", op, got="extra_packet", piece=k)
                    if judge.failed:
                        state["done"] = True
                        return
                    ended = res["kind"]
                if not cont:
                    break
                sp += mps
                k += 1
                if k >= MAX_PIECES:
                    break
            state["outcomes"].add(ended)
            judge.prev = ("absent_" if judge.expected(op) is None else "present_") + ("rt" if (op["type"], op["index"]) in rt_keys else "fixed")
            for _ in range(cfg["pause"]):
                o = yield dict(pins)
                state["t"] += 1
        state["done"] = True

    actor = GenActor(reader(), stop_when_done=True)
    max_cycles = 200 + sum((op["wlength"] if op["wlength"] < 400 else 400) * 6 * (2 + sum(op.get("rereads", []))) + 2000
                           for op in scn["ops"])
    log = bench.run([actor], max_cycles)
    if not state["done"]:
        raise RuntimeError("reader did not finish within the cycle cap")
    return log, state["outcomes"]


def _run_device(scn, viol, probes, faults):
    cfg = scn["config"]
    mode = cfg["dut"].split("_")[1]
    mps, entries, variant = cfg["mps"], cfg["entries"], cfg["variant"]
    bench = _device_bench(mode, mps, entries, variant)
    table = {(e[0], e[1]): bytes.fromhex(e[2]) for e in entries}
    if bench.auto_lang is not None:
        table.setdefault((3, 0), bench.auto_lang)
    rt_keys = {(e[0], e[1]) for e in entries if e[3]}
    judge = _Judge(viol, probes, cfg["dut"], mps, table, rt_keys)
    probes[cfg["dut"]] += 1
    outcomes = set()
    init = dict(IDLE_INIT)
    init["full_speed_only"] = 1

    seen = {"n": 0, "op": None}

    def quiet(h, where):
        """ the device transmits only when asked: every transmission so far has been consumed as a response """
        if len(h.tx_packets) != seen["n"] or h._tx_cur is not None:
            extra = h.tx_packets[seen["n"]:seen["n"] + 3]
            judge.bad("C09.no_extra_packets", h.t, f"unsolicited device transmission(s) {[bytes(p['data']).hex() for p in extra]} "
                      f"{where}", seen["op"], got="extra_packet", piece=-1)
            return False
        return True

    def took(r):
        if r["kind"] != "NONE":
            seen["n"] += 1
        return r

    def script(h):
        x = Txn(h, variant, tok_gap=cfg["tok_gap"], turn=cfg["turn"], rest=cfg["rest"])
        yield from h.idle(4)
        for op in scn["ops"]:
            if seen["op"] is not None and not quiet(h, "after the previous transfer"):
                return
            seen["op"] = op
            judge.note_request(op)
            r = yield from x.setup(0, 0, setup_bytes(0x80, 6, ((op["type"] & 0xFF) << 8) | (op["index"] & 0xFF), 0, op["wlength"]))
            took(r)
            if r["kind"] != "ACK":
                raise RuntimeError(f"SETUP not ACKed ({r['kind']}): not a C09 matter")
            exp = judge.expected(op)
            got_stall = False
            if op["wlength"] > 0:
                sp, k = 0, 0
                rereads = list(op.get("rereads", []))
                while True:
                    times = 1 + (rereads[k] if k < len(rereads) else 0)
                    cont = False
                    for attempt in range(times):
                        if attempt:
                            probes["piece_reread"] += 1
                            faults["lost_handshake"] = faults.get("lost_handshake", 0) + 1
                        if not quiet(h, f"before the IN token of piece {k}"):
                            return
                        r = took((yield from x.in_(0, 0)))
                        if is_data(r):
                            res = {"kind": "zlp" if r["payload"] == b"" else "data", "data": r["payload"]}
                        elif r["kind"] == "STALL":
                            res = {"kind": "stall", "data": b""}
                        elif r["kind"] == "NONE":
                            res = {"kind": "none", "data": b""}
                        else:
                            res = {"kind": "data", "data": b"<" + r["kind"].encode() + b">" + r["raw"]}
                        cont = judge.piece(op, k, sp, res, h.t, attempt > 0)
                        if judge.failed:
                            return
                        if res["kind"] == "stall":
                            got_stall = True
                            break
                        if attempt + 1 < times:
                            yield from h.idle(cfg["rest"] + cfg["turn"])       # the host did not like the packet: no handshake
                        else:
                            yield from h.idle(cfg["turn"])
                            if not quiet(h, f"after piece {k}, before the host's ACK"):
                                return
                            yield from x.handshake("ACK")
                    if not cont or got_stall:
                        break
                    sp += mps
                    k += 1
                    if k >= MAX_PIECES:
                        break
            if exp is None and not got_stall and op["wlength"] == 0:
                pass
            outcomes.add("stall" if got_stall else "read")
            if not got_stall:
                # status stage (always completed; its own correctness is C07's subject)
                if not quiet(h, "after the data stage"):
                    return
                if op["wlength"] > 0:
                    r = took((yield from x.out(0, 0, "DATA1", b"")))
                else:
                    r = took((yield from x.in_(0, 0)))
                    if is_data(r):
                        if r["payload"] != b"":
                            judge.bad("C09.bytes", h.t, f"GET_DESCRIPTOR with wLength 0 answered with data {r['payload'].hex()}", op,
                                      got="data_for_wlength_0", piece=0)
                            return
                        yield from x.handshake("ACK")
                outcomes.add("status_" + r["kind"])
            judge.prev = ("absent_" if exp is None else "present_") + ("rt" if (op["type"], op["index"]) in rt_keys else "fixed")
            yield from h.idle(cfg["pause"])
        yield from h.idle(8)
        quiet(h, "at the end of the run")

    host = UTMIHost(script, idle_data=cfg.get("idle_data"), byte_period=cfg["byte_period"], pre=cfg["pre"], post=cfg["post"],
                    txready=(cfg["txready"] if cfg["txready"] == "always" else tuple(cfg["txready"])))
    bp = cfg["byte_period"]
    max_cycles = 500 + sum(1000 + 60 * bp + (min(op["wlength"], 400) // mps + 3) * (1 + sum(op.get("rereads", [])))
                           * ((mps + 4) * 3 + 300 + 30 * bp) for op in scn["ops"])
    log = bench.run([host], max_cycles, init=init)
    if not host._done and not viol:
        raise RuntimeError("host script did not finish within the cycle cap")
    return log, outcomes


def run(scn):
    cfg = scn["config"]
    viol = Violations()
    probes = {p: 0 for p in PROBES}
    faults = {}
    if cfg["dut"].startswith("alone_"):
        log, outcomes = _run_alone(scn, viol, probes, faults)
    else:
        log, outcomes = _run_device(scn, viol, probes, faults)
    if cfg.get("txready", "always") != "always" or cfg["ready"] != [1]:
        faults["txready_stall"] = faults.get("txready_stall", 0) + 1
    sig = hashlib.blake2b(repr((cfg["dut"], cfg["mps"], sorted(log.fsm_vectors), sorted(faults), sorted(outcomes))).encode(),
                          digest_size=8).hexdigest()
    nontrivial = probes["multi_piece"] + probes["zlp_expected"] + probes["piece_reread"] > 0
    return {"violations": viol.items, "cycles": log.cycles, "faults": faults, "probes": probes, "sig": sig,
            "nontrivial": nontrivial, "digest": log.digest, "fsm": len(log.fsm_vectors)}
