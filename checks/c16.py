"""
C16 -- isochronous OUT endpoints deliver only whole, CRC-valid packets.

DUT: the complete USBDevice (V1 / V2 timing) with a standard control endpoint, a bulk OUT endpoint (ep 2, traffic for
another endpoint) and USBIsochronousStreamOutEndpoint on ep 4 (max packet size 1..64, buffer mps..3*mps or default).
The host sends isochronous OUT transactions (token + data, no handshake) of all sizes, some corrupted / truncated /
with a corrupted token, interleaved with traffic for other endpoints and devices, while the consumer applies a literal
back-pressure pattern (long stalls, short bursts, slow reading) so that packets arrive into a partially full buffer.
Oracle: the consumed stream must parse into frames first..last, each equal to one sent valid packet, in sending order.
"""

import hashlib
import random

from dsim.kernel import Violations
from models.usb2_wire import gen_idle_data
from models import usb2
from models.usb2 import UTMIHost, token_packet, data_packet, sof_packet, apply_fault, parse_token, parse_data
from engines.usb2_device import device_bench, IDLE_INIT

PROPERTY = "C16"
ENGINE = "usb2_device"
CLOCK_HZ = 60e6
RULES = {
    "C16.whole_packets": "every delivered frame is the complete payload of one packet (never a truncated head or tail), "
                         "and nothing is delivered before the packet has ended",
    "C16.marks": "each delivered payload has first on its first byte and last on its final byte, and nowhere else",
    "C16.order": "delivered payloads appear in sending order, each at most once",
    "C16.no_corrupt": "packets with a bad CRC / truncated packets / packets not addressed to the endpoint contribute nothing",
    "C16.no_drop_when_empty": "a valid packet that arrives when every earlier byte has been consumed (buffer empty) is delivered",
}
PROBES = ["packet_into_partially_full_buffer", "packet_dropped_for_space", "full_size_packet", "one_byte_packet", "zlp_packet",
          "corrupt_packet_then_valid", "valid_after_corrupt_token", "consumer_stalled_cycles", "other_ep_between", "buffer_lt_2mps",
          "back_to_back_min_gap"]
META = {
    "components_real": ["USBDevice", "USBIsochronousStreamOutEndpoint", "USBOutStreamBoundaryDetector", "TransactionalizedFIFO",
                        "USBDataPacketReceiver", "USBDataPacketCRC", "USBTokenDetector", "USBStreamOutEndpoint (ep 2)", "USBControlEndpoint"],
    "components_stubbed": ["UTMI PHY + host (models.usb2.UTMIHost)", "stream consumer with a literal ready pattern"],
    "assumptions": ["legal UTMI; the host leaves >= 2 bit times + 3 cycles after a data packet before its next packet",
                    "the first payload byte of every data packet of a run is unique (packet identity for the oracle)",
                    "zero-length packets contribute nothing to the stream",
                    "a data packet whose token was corrupted is 'not addressed to the endpoint'",
                    "at the end of a run the consumer reads continuously until the stream has been idle for a while"],
    "rule": "6-24 ops: OUT transactions to the iso endpoint (length 0..mps, any data PID; faults corrupt_bit, truncate, "
            "corrupt_token, abort_rx), OUT transactions to a bulk endpoint / another device, SOFs, idle; consumer ready pattern = "
            "literal segment list; mps, buffer size and variant fixed per group of 8 scenario indices",
}
TIERS = {"quick": {"runs": 900, "wall": 70}, "thorough": {"runs": 12000, "wall": 900}}

EP = 4
MPS = [1, 2, 5, 8, 8, 12, 16, 16, 64]


def _bench_cfg(index):
    r = random.Random((index // 8 * 40503 + 11) % (1 << 32))
    mps = r.choice(MPS)
    buf = r.choice([None, None, mps, mps + 1, 2 * mps - 1, 2 * mps, 2 * mps + 1, 3 * mps, r.randint(mps, 3 * mps)])
    return {"variant": r.choice(["V1", "V2"]), "mps": mps, "buffer": buf}


def _dev_cfg(c):
    return {"variant": c["variant"], "spy": False,
            "endpoints": [{"kind": "stream_out", "ep": 2, "mps": 8},
                          {"kind": "iso_out", "ep": EP, "mps": c["mps"], "buffer": c["buffer"]}]}


def gen(rng, tier, index):
    bc = _bench_cfg(index)
    mps = bc["mps"]
    bit = 5 if bc["variant"] == "V2" else 1
    cfg = dict(bc)
    cfg.update({
        "byte_period": rng.choice([1, 1, 2, 3]),
        "pre": rng.choice([1, 1, 2]),
        "post": rng.choice([0, 0, 1]),
        "gaps": [rng.choice([0, 0, 1, 2]) for _ in range(rng.randint(1, 4))] if rng.random() < 0.3 else None,
    })
    pkt_time = (mps + 3) * cfg["byte_period"] + 10 * bit
    style = rng.choice(["always", "stall_burst", "stall_burst", "stall_burst", "slow", "mixed"])
    segs = []
    if style == "always":
        segs = [[100, 1]]
    else:
        for _ in range(rng.randint(3, 9)):
            if style == "slow":
                segs.append([rng.randint(10, 4 * pkt_time), rng.choice([2, 3, 3])])
            elif style == "stall_burst":
                segs.append([rng.randint(pkt_time // 2, 4 * pkt_time), 0])
                segs.append([rng.choice([1, 1, 2, 3, mps // 2 + 1, mps, mps + 1, 2 * mps]), 1])
            else:
                segs.append([rng.randint(1, 3 * pkt_time), rng.choice([0, 0, 1, 2, 3])])
    cfg["consumer"] = segs
    fault_free = rng.random() < 0.15
    p_fault = 0.0 if fault_free else rng.choice([0.1, 0.2, 0.3])
    p_other = rng.choice([0.0, 0.1, 0.25])
    token_faults = (not fault_free) and rng.random() < 0.3
    nops = rng.randint(6, 14 if tier == "quick" else 24)
    ops = []
    seq = rng.randrange(256)
    while len(ops) < nops:
        r = rng.random()
        seq = (seq + 1) & 0xFF
        if r < p_other:
            k = rng.choice(["out_ep2", "foreign_out", "sof", "idle"])
            op = {"op": "other", "kind": k, "gap": 2 * bit + 3 + rng.choice([0, 2, 10, pkt_time])}
            if k in ("out_ep2", "foreign_out"):
                n = rng.randint(1, 8)
                op["data"] = bytes([seq] + [rng.getrandbits(8) for _ in range(n - 1)]).hex()
                op["addr"] = rng.randint(1, 127)
                op["ep"] = rng.choice([EP, EP, 2, rng.randint(0, 15)])
            if k == "idle":
                op["n"] = rng.randint(1, 3 * pkt_time)
            ops.append(op)
            continue
        n = rng.choice([mps, mps, mps, 1, max(1, mps - 1), rng.randint(0, mps), rng.randint(1, mps), 0 if rng.random() < 0.3 else mps])
        data = bytes(([seq] + [rng.getrandbits(8) for _ in range(n - 1)]) if n else [])
        op = {"op": "out", "data": data.hex(), "pid": rng.choice(["DATA0", "DATA0", "DATA0", "DATA1", "DATA2", "MDATA"]),
              "tok_gap": rng.choice([1, 2, 3, 8, 2 * bit]),
              "gap": 2 * bit + 3 + rng.choice([0, 0, 1, 5, 20, pkt_time, 3 * pkt_time])}
        if rng.random() < p_fault:
            k = rng.choice(["corrupt_bit", "corrupt_bit", "truncate", "abort_rx"] + (["corrupt_token"] * 3 if token_faults else []))
            nb = len(data) + 3
            if k == "corrupt_bit":
                op["fault"] = {"kind": "corrupt_bit", "bits": [rng.randrange(nb * 8) for _ in range(rng.choice([1, 1, 2]))]}
            elif k == "truncate":
                op["fault"] = {"kind": "truncate", "to": rng.randint(1, nb - 1)}
            elif k == "abort_rx":
                op["fault"] = {"kind": "abort_rx", "at": rng.randint(1, nb - 1)}
            else:
                op["fault"] = {"kind": "corrupt_token", "bits": [rng.randrange(24) for _ in range(rng.choice([1, 1, 2]))]}
                if rng.random() < 0.5:       # the damaged token was meant for somebody else
                    op["fault"]["tok_addr"] = rng.choice([0, rng.randint(1, 127)])
                    op["fault"]["tok_ep"] = rng.choice([2, EP, rng.randint(0, 15)])
        ops.append(op)
    cfg["idle_data"] = gen_idle_data(rng)
    return {"engine": ENGINE, "config": cfg, "ops": ops}


# ------------------------------------------------------------------------------------------------
class _Consumer:
    def __init__(self, segs, ep):
        self.segs = segs
        self.total = sum(s[0] for s in segs)
        self.ready_pin = f"isoout{ep}_ready"
        self.valid_pin = f"isoout{ep}_valid"
        self.raw_pin = f"isoout{ep}_raw"
        self.items = []             # (t, data, first, last) consumed
        self.drain = False
        self.stalled = 0
        self.last_activity = 0
        self._r = 0

    def _bit(self, t):
        if self.drain:
            return 1
        x = t % self.total
        for n, mode in self.segs:
            if x < n:
                if mode == 0:
                    return 0
                if mode == 1:
                    return 1
                return 1 if (x % mode) == 0 else 0
            x -= n
        return 1

    def drive(self, t):
        self._r = self._bit(t)
        return {self.ready_pin: self._r, "out2_ready": 1}

    def observe(self, t, o):
        if o[self.valid_pin]:
            self.last_activity = t
            if self._r:
                raw = o[self.raw_pin]
                self.items.append((t, (raw >> 2) & 0xFF, raw & 1, (raw >> 1) & 1))
            else:
                self.stalled += 1


def run(scn):
    cfg = scn["config"]
    variant, mps = cfg["variant"], cfg["mps"]
    buf = cfg["buffer"] if cfg["buffer"] is not None else 2 * mps
    bench = device_bench(_dev_cfg(cfg))
    init = dict(IDLE_INIT)
    bit = 5 if variant == "V2" else 1
    timeout = 18 * bit + 4
    ops = scn["ops"]
    viol = Violations()
    probes = {p: 0 for p in PROBES}
    faults = {}
    sent = []          # every data packet put on the wire: dict(cls, payload, wire, t_tok_start, t_start, t_end)
    cons = _Consumer(cfg["consumer"], EP)

    def fault(k):
        faults[k] = faults.get(k, 0) + 1

    def script(h):
        yield from h.idle(4)
        for op in ops:
            kind = op["op"]
            if kind == "idle":
                yield from h.idle(op["n"])
                continue
            if kind == "other":
                k = op["kind"]
                if k == "sof":
                    yield from h.send(sof_packet(5), info="sof")
                elif k == "idle":
                    yield from h.idle(op["n"])
                else:
                    addr = 0 if k == "out_ep2" else op["addr"]
                    ep = 2 if k == "out_ep2" else op["ep"]
                    fault("interleave_other_ep" if k == "out_ep2" else "interleave_other_device")
                    probes["other_ep_between"] += 1
                    t_tok = h.t + 1
                    yield from h.send(token_packet("OUT", addr, ep), info="other_token")
                    yield from h.idle(2)
                    payload = bytes.fromhex(op["data"])
                    t0, t1 = yield from h.send(data_packet("DATA0", payload), info="other_data")
                    sent.append({"cls": "other", "payload": payload, "t_tok_start": t_tok, "t_start": t0, "t_end": t1})
                    if k == "out_ep2":
                        yield from h.recv(timeout)
                yield from h.idle(op["gap"])
                continue
            # ---- an isochronous OUT transaction to the endpoint under test ----
            f = op.get("fault") or {}
            fk = f.get("kind")
            if fk:
                fault(fk)
            tok = token_packet("OUT", 0, EP)
            if fk == "corrupt_token":
                tok = apply_fault(token_packet("OUT", f.get("tok_addr", 0), f.get("tok_ep", EP)), {"kind": "corrupt_bit", "bits": f["bits"]})
            payload = bytes.fromhex(op["data"])
            wire = data_packet(op["pid"], payload)
            abort_at = None
            if fk in ("corrupt_bit", "truncate"):
                wire = apply_fault(wire, f)
            elif fk == "abort_rx":
                abort_at = min(f["at"], len(wire) - 1)
            t_tok = h.t + 1
            yield from h.send(tok, info="token")
            p = parse_token(tok)
            addressed = p is not None and p == ("OUT", 0, EP)
            yield from h.idle(op["tok_gap"])
            t0, t1 = yield from h.send(wire, abort_at=abort_at, info="data")
            seen = wire if abort_at is None else wire[:abort_at]
            d = parse_data(seen)
            if not addressed:
                cls = "token_corrupt"
                # a corrupted token may have become a valid token for something else that answers
                if p is not None and p[1] == 0:
                    yield from h.recv(timeout)
            elif d is None:
                cls = "corrupt"
            else:
                cls = "valid"
            sent.append({"cls": cls, "payload": d[1] if d is not None else bytes(seen[1:-2]), "t_tok_start": t_tok,
                         "t_start": t0, "t_end": t1, "intended": payload})
            if op["gap"] == 2 * bit + 3:
                probes["back_to_back_min_gap"] += 1
            yield from h.idle(op["gap"])
        # drain: the consumer reads continuously until the stream has been quiet for a while
        cons.drain = True
        yield from h.idle(buf + 12)
        while h.t - cons.last_activity < 8:
            yield

    host = UTMIHost(script, idle_data=cfg.get("idle_data"), byte_period=cfg["byte_period"], pre=cfg["pre"], post=cfg["post"], gap_pattern=cfg["gaps"])
    per_pkt = (mps + 8) * (cfg["byte_period"] + 3) + 2 * timeout
    max_cycles = 600 + 4 * buf + sum(per_pkt + op.get("gap", 0) + op.get("n", 0) + op.get("tok_gap", 0) for op in ops)
    log = bench.run([host, cons], max_cycles, init=init)
    if not host._done:
        raise RuntimeError("host script did not finish within the cycle cap")
    if host.tx_during_rx:
        raise RuntimeError("harness: device transmitted while the host was sending (host model not legal here)")

    # ---- oracle -----------------------------------------------------------------------------------------------------
    items = cons.items
    probes["consumer_stalled_cycles"] = cons.stalled
    if buf < 2 * mps:
        probes["buffer_lt_2mps"] += 1
    valid = [s for s in sent if s["cls"] == "valid" and len(s["payload"]) > 0]
    for i, s in enumerate(sent):
        if s["cls"] == "valid":
            n = len(s["payload"])
            if n == mps:
                probes["full_size_packet"] += 1
            if n == 1:
                probes["one_byte_packet"] += 1
            if n == 0:
                probes["zlp_packet"] += 1
            if i and sent[i - 1]["cls"] == "corrupt":
                probes["corrupt_packet_then_valid"] += 1
            if i and sent[i - 1]["cls"] == "token_corrupt":
                probes["valid_after_corrupt_token"] += 1
    buf_class = "lt_2mps" if buf < 2 * mps else ("eq_2mps" if buf == 2 * mps else "gt_2mps")
    base_shape = {"variant": variant, "buffer": buf_class}
    outcomes = set()

    def unread_before(t, upto_item):
        """ bytes of earlier frames that were still unread at cycle t (consumed at or after t) """
        return sum(1 for it in items[:upto_item] if it[0] >= t)

    def explain(pk):
        return (f"packet #{valid.index(pk)} ({len(pk['payload'])} bytes {pk['payload'].hex()}, data on the wire in cycles "
                f"{pk['t_start']}..{pk['t_end']})")

    nxt = 0              # index into valid of the next packet that may still be delivered
    delivered_at = {}    # valid index -> index of its first item
    i = 0
    while i < len(items) and not viol:
        j = i
        while True:
            if items[j][3]:
                has_last = True
                break
            if j + 1 >= len(items) or items[j + 1][2]:
                has_last = False
                break
            j += 1
        frame = items[i:j + 1]
        data = bytes(it[1] for it in frame)
        has_first = bool(frame[0][2])
        inner_first = any(it[2] for it in frame[1:])
        t_first = frame[0][0]
        ctx = f"frame of {len(data)} byte(s) {data.hex()} consumed from cycle {t_first} (first={int(has_first)}, last={int(has_last)})"
        match = next((k for k in range(nxt, len(valid)) if valid[k]["payload"] == data), None)
        if has_first and has_last and not inner_first and match is not None:
            pk = valid[match]
            if t_first < pk["t_end"]:
                viol.add("C16.whole_packets", t_first, f"{ctx} delivered before {explain(pk)} had ended", kind="before_packet_end",
                         **base_shape)
                break
            for k in range(nxt, match):
                outcomes.add("dropped")
                probes["packet_dropped_for_space"] += 1
                dk = valid[k]
                if unread_before(dk["t_tok_start"], i) == 0:
                    viol.add("C16.no_drop_when_empty", dk["t_end"], f"{explain(dk)} was never delivered although every earlier byte "
                             f"had been consumed before its token started (buffer {buf}, mps {mps})", kind="dropped_when_empty",
                             **base_shape)
                    break
            if viol:
                break
            if unread_before(pk["t_start"], i) > 0:
                probes["packet_into_partially_full_buffer"] += 1
                outcomes.add("delivered_partial_full")
            else:
                outcomes.add("delivered")
            delivered_at[match] = i
            nxt = match + 1
            i = j + 1
            continue
        # ---- something is wrong with this frame: classify ----
        earlier = next((k for k in range(0, nxt) if valid[k]["payload"] == data), None)
        bad = next((s for s in sent if s["cls"] != "valid" and len(data) and s["payload"] == data), None)
        part = None
        for k in range(len(valid)):
            p = valid[k]["payload"]
            if len(data) < len(p) and (p.startswith(data) or p.endswith(data) or data in p):
                part = (k, "head_kept_tail_dropped" if p.startswith(data) else ("tail_kept_head_dropped" if p.endswith(data) else "middle"))
                break
        sub = None
        if part is None and match is None and len(data) >= 2:
            for k in range(len(valid)):
                pl = valid[k]["payload"]
                if len(data) < len(pl):
                    it_ = iter(pl)
                    if all(b in it_ for b in data):          # data is pl with bytes missing (order kept)
                        sub = k
                        break
        if bad is not None and t_first >= bad["t_end"] and match is None:
            part = sub = None              # exactly the payload of a packet that must contribute nothing: report that
        if match is not None:
            viol.add("C16.marks", t_first, f"{ctx} equals {explain(valid[match])} but is not marked first..last exactly "
                     f"(inner first={int(inner_first)})", kind="bad_marks", **base_shape)
        elif part is not None:
            pk = valid[part[0]]
            unread = unread_before(pk["t_start"], i)
            viol.add("C16.whole_packets", t_first, f"{ctx} is only a part ({part[1]}) of {explain(pk)}; {unread} byte(s) of earlier "
                     f"packets were still unread when it started (buffer {buf}, mps {mps})", kind=part[1],
                     unread_at_start=("none" if unread == 0 else "some"), **base_shape)
        elif sub is not None:
            pk = valid[sub]
            unread = unread_before(pk["t_start"], i)
            viol.add("C16.whole_packets", t_first, f"{ctx} is {explain(pk)} with bytes missing inside; {unread} byte(s) of earlier "
                     f"packets were still unread when it started (buffer {buf}, mps {mps})", kind="bytes_missing_inside",
                     unread_at_start=("none" if unread == 0 else "some"), **base_shape)
        elif earlier is not None:
            viol.add("C16.order", t_first, f"{ctx} repeats / reorders {explain(valid[earlier])}", kind="duplicate_or_reordered", **base_shape)
        elif bad is not None:
            viol.add("C16.no_corrupt", t_first, f"{ctx} is the payload of a packet that must contribute nothing (class {bad['cls']}, "
                     f"on the wire in cycles {bad['t_start']}..{bad['t_end']})", kind=bad["cls"], **base_shape)
        elif len(data) >= 2 and (lambda it_: all(b in it_ for b in data))(iter(b"".join(v["payload"] for v in valid))):
            viol.add("C16.whole_packets", t_first, f"{ctx} is stitched together from fragments of several valid packets "
                     f"(bytes of the sent payloads in order, with gaps) (buffer {buf}, mps {mps})", kind="fragments_merged",
                     unread_at_start="some", **base_shape)
        else:
            frag = next((s for s in sent if s["cls"] != "valid" and len(data) and data in s["payload"]), None)
            viol.add("C16.no_corrupt", t_first, f"{ctx} matches no valid packet" + (f"; it is a fragment of a {frag['cls']} packet" if frag else ""),
                     kind=("fragment_of_" + frag["cls"]) if frag else "unknown_data", **base_shape)
        break
    if not viol:
        for k in range(nxt, len(valid)):
            outcomes.add("dropped")
            probes["packet_dropped_for_space"] += 1
            dk = valid[k]
            if unread_before(dk["t_tok_start"], len(items)) == 0:
                viol.add("C16.no_drop_when_empty", dk["t_end"], f"{explain(dk)} was never delivered although every earlier byte had been "
                         f"consumed before its token started (buffer {buf}, mps {mps})", kind="dropped_when_empty", **base_shape)
                break

    sig = hashlib.blake2b(repr((variant, mps, buf, sorted(log.fsm_vectors), sorted(faults), sorted(outcomes))).encode(),
                          digest_size=8).hexdigest()
    nontrivial = len(valid) >= 2 and (cons.stalled > 0 or bool(faults))
    return {"violations": viol.items, "cycles": log.cycles, "faults": faults, "probes": probes, "sig": sig,
            "nontrivial": nontrivial, "digest": log.digest, "fsm": len(log.fsm_vectors)}
