"""
C45 -- transaction packet requests produce the requested transaction packet.

DUT: luna.gateware.usb.usb3.protocol.transaction.TransactionPacketGenerator (real), standalone, domain "ss".
Stimulus: one literal row per cycle [kind, endpoint, retry, sequence, address, queue_ready]; kind 0 = no request,
1..4 = send_ack / send_stall / send_nrdy / send_erdy.  All field values change every cycle, so "the values present
when the request was made" are distinguishable from the values one cycle earlier or later.
Oracle: a request strobe in a cycle in which the DUT shows `ready` is an accepted request; each accepted request
must be followed by exactly one header (valid & ready on the header queue) whose transaction subtype and fields are
those of the request cycle.  Strobes while the generator is busy are outside the statement: a header that matches
such a strobe is tolerated, nothing is demanded for it.
"""

import hashlib

from dsim.kernel import make_bench, cached_bench, Violations
from models.usb3_proto import parse_transaction_header, HP_TYPE_TRANSACTION, TP_ACK, TP_NRDY, TP_ERDY, TP_STALL, TP_NAMES

PROPERTY = "C45"
ENGINE = "usb3_proto"
CLOCK_HZ = 125e6
RULES = {
    "C45.subtype": "the header produced for an accepted request is a transaction packet of the requested subtype",
    "C45.fields_latched": "device address, endpoint number (and, for ACK, retry flag and sequence number) equal the "
                          "values present in the request cycle",
    "C45.exactly_one": "every accepted request produces exactly one header; no header without a request",
}
PROBES = ["ack", "stall", "nrdy", "erdy", "request_while_busy", "queue_stall_while_sending", "back_to_back_request",
          "request_cycle_after_done"]
META = {
    "components_real": ["luna.gateware.usb.usb3.protocol.transaction.TransactionPacketGenerator"],
    "components_stubbed": ["endpoint (request strobes and fields: literal per-cycle rows)",
                           "header queue consumer (literal ready pattern)"],
    "assumptions": ["at most one of send_ack/send_stall/send_nrdy/send_erdy is strobed per cycle",
                    "endpoint numbers are 0..15 (the width of the header field)",
                    "requests strobed while `ready` is low are not covered by the statement: they may or may not "
                    "produce a packet"],
    "rule": "60-300 cycles of literal rows; per-run request density 3-50 %, queue-ready density 15-100 %, "
            "fields re-drawn every cycle; ~15 % of runs have an always-ready queue and no busy requests",
}
TIERS = {"quick": {"runs": 24000, "wall": 70}, "thorough": {"runs": 120000, "wall": 900}}

KIND_NAMES = {1: "ack", 2: "stall", 3: "nrdy", 4: "erdy"}
KIND_SUBTYPE = {1: TP_ACK, 2: TP_STALL, 3: TP_NRDY, 4: TP_ERDY}
DRAIN = 12


def gen(rng, tier, index):
    n = rng.randint(60, 300 if tier == "quick" else 1200)
    clean = rng.random() < 0.15
    p_req = rng.choice([0.03, 0.08, 0.15, 0.3, 0.5])
    p_rdy = 1.0 if clean else rng.choice([0.15, 0.3, 0.5, 0.8, 1.0])
    kinds = rng.choice([[1, 2, 3, 4], [1, 2, 3, 4], [1, 4], [3, 4], [4], [1], [2, 3]])
    ops = []
    quiet = 0
    for _ in range(n):
        kind = rng.choice(kinds) if rng.random() < p_req else 0
        if clean:               # clean runs: never strobe while the previous request may still be in flight
            if quiet:
                kind, quiet = 0, quiet - 1
            elif kind:
                quiet = 3
        ops.append([kind, rng.randrange(16), rng.getrandbits(1), rng.getrandbits(5), rng.getrandbits(7),
                    int(rng.random() < p_rdy)])
    return {"engine": ENGINE, "config": {"clean": clean}, "ops": ops}


def _bench():
    from luna.gateware.usb.usb3.protocol.transaction import TransactionPacketGenerator

    def factory():
        dut = TransactionPacketGenerator()
        i, q = dut.interface, dut.header_source
        ins = {"ep": i.endpoint_number, "retry": i.retry_required, "seq": i.next_sequence,
               "ack": i.send_ack, "stall": i.send_stall, "nrdy": i.send_nrdy, "erdy": i.send_erdy,
               "addr": dut.address, "q_ready": q.ready}
        outs = {"ready": i.ready, "done": i.done, "valid": q.valid,
                "dw0": q.header.dw0, "dw1": q.header.dw1, "dw2": q.header.dw2}
        return make_bench(dut, clocks={"ss": 1 / 125e6}, main="ss", ins=ins, outs=outs)
    return cached_bench(("c45",), factory)


class _Actor:
    def __init__(self, scn, viol, probes):
        self.ops = scn["ops"]
        self.clean = scn["config"].get("clean", False)
        self.viol = viol
        self.probes = probes
        self.pending = []        # accepted requests awaiting their header: (t, kind, ep, retry, seq, addr)
        self.busy = []           # strobes seen while not ready (tolerated if they produce a header)
        self.classes = set()
        self.dead = False
        self.last_done = -10
        self.last_ready_prev = 0

    def _row(self, t):
        if t < len(self.ops):
            return self.ops[t]
        return [0, 0, 0, 0, 0, 1]

    def drive(self, t):
        kind, ep, retry, seq, addr, rdy = self._row(t)
        return {"ack": int(kind == 1), "stall": int(kind == 2), "nrdy": int(kind == 3), "erdy": int(kind == 4),
                "ep": ep, "retry": retry, "seq": seq, "addr": addr, "q_ready": rdy}

    @staticmethod
    def _matches(req, f):
        _, kind, ep, retry, seq, addr = req
        if f["type"] != HP_TYPE_TRANSACTION or f["subtype"] != KIND_SUBTYPE[kind]:
            return False
        if f["device_address"] != addr or f["endpoint_number"] != ep:
            return False
        if kind == 1 and (f["retry"] != retry or f["data_sequence"] != seq):
            return False
        return True

    def observe(self, t, o):
        if self.dead:
            return True
        kind, ep, retry, seq, addr, rdy = self._row(t)
        pr = self.probes
        # ---- requests -----------------------------------------------------------------------------
        if kind:
            req = (t, kind, ep, retry, seq, addr)
            if o["ready"]:
                self.pending.append(req)
                pr[KIND_NAMES[kind]] += 1
                if t - self.last_done == 1:
                    pr["request_cycle_after_done"] += 1
                if not self.last_ready_prev:
                    pr["back_to_back_request"] += 1
                self.classes.add(("req", kind))
            else:
                self.busy.append(req)
                pr["request_while_busy"] += 1
                self.classes.add(("busy", kind))
        self.last_ready_prev = o["ready"]
        if o["done"]:
            self.last_done = t
        # ---- header transfers ---------------------------------------------------------------------
        if o["valid"] and not rdy:
            pr["queue_stall_while_sending"] += 1
            self.classes.add("stall")
        if o["valid"] and rdy:
            f = parse_transaction_header(o["dw0"], o["dw1"], o["dw2"])
            head = self.pending[0] if self.pending else None
            if head is not None and self._matches(head, f):
                self.pending.pop(0)
            else:
                # tolerated: a header answering a strobe made while busy (older than the pending request)
                tol = None
                for i, b in enumerate(self.busy):
                    if (head is None or b[0] < head[0]) and self._matches(b, f):
                        tol = i
                        break
                if tol is not None:
                    self.busy.pop(tol)
                elif head is None:
                    self.viol.add("C45.exactly_one", t,
                                  f"header {TP_NAMES.get(f['subtype'], f['subtype'])} (type {f['type']}) emitted with no "
                                  f"outstanding request", kind="spurious_header")
                    self.dead = True
                    return True
                else:
                    rt, rkind, rep, rretry, rseq, raddr = head
                    if f["type"] != HP_TYPE_TRANSACTION or f["subtype"] != KIND_SUBTYPE[rkind]:
                        self.viol.add("C45.subtype", t,
                                      f"request send_{KIND_NAMES[rkind]} accepted in cycle {rt}: expected a transaction packet "
                                      f"(type 4) of subtype {TP_NAMES[KIND_SUBTYPE[rkind]]}, observed type {f['type']} subtype "
                                      f"{TP_NAMES.get(f['subtype'], f['subtype'])}",
                                      requested=KIND_NAMES[rkind], observed=TP_NAMES.get(f["subtype"], str(f["subtype"])))
                    else:
                        wrong = [k for k, want in (("device_address", raddr), ("endpoint_number", rep)) if f[k] != want]
                        if rkind == 1:
                            wrong += [k for k, want in (("retry", rretry), ("data_sequence", rseq)) if f[k] != want]
                        prev = self.ops[rt - 1] if 0 < rt <= len(self.ops) else None
                        nxt = self.ops[rt + 1] if rt + 1 < len(self.ops) else None
                        self.viol.add("C45.fields_latched", t,
                                      f"request send_{KIND_NAMES[rkind]} in cycle {rt} with ep={rep} retry={rretry} seq={rseq} "
                                      f"addr={raddr}: header carries addr={f['device_address']} ep={f['endpoint_number']} "
                                      f"retry={f['retry']} seq={f['data_sequence']} (row before request {prev}, after {nxt})",
                                      requested=KIND_NAMES[rkind], field=wrong[0] if wrong else "?")
                    self.dead = True
                    return True
        # ---- end of run ---------------------------------------------------------------------------
        if t >= len(self.ops) + DRAIN:
            if self.pending:
                rt, rkind = self.pending[0][0], self.pending[0][1]
                self.viol.add("C45.exactly_one", t,
                              f"request send_{KIND_NAMES[rkind]} accepted in cycle {rt} produced no header within "
                              f"{t - rt} cycles (queue ready for the last {DRAIN})", kind="missing_header",
                              requested=KIND_NAMES[rkind])
            return True
        return False


def run(scn):
    bench = _bench()
    viol = Violations()
    probes = {p: 0 for p in PROBES}
    actor = _Actor(scn, viol, probes)
    log = bench.run([actor], max_cycles=len(scn["ops"]) + DRAIN + 4)
    if not viol and log.cycles < len(scn["ops"]) + DRAIN:
        raise RuntimeError("run stopped early")
    sig = hashlib.blake2b(repr(sorted(map(repr, actor.classes))).encode(), digest_size=8).hexdigest()
    n_req = sum(probes[k] for k in ("ack", "stall", "nrdy", "erdy"))
    faults = {"request_while_busy": probes["request_while_busy"],
              "ready_stall": probes["queue_stall_while_sending"],
              "fields_changed_after_request": n_req}
    return {"violations": viol.items, "cycles": log.cycles, "faults": faults, "probes": probes, "sig": sig,
            "nontrivial": n_req > 0, "digest": log.digest, "fsm": len(log.fsm_vectors)}


def shrink_candidates(scn):
    import copy
    ops = scn["ops"]
    for i in range(len(ops) - 1, -1, -1):
        if ops[i][0]:
            cand = copy.deepcopy(scn)
            cand["ops"][i][0] = 0
            yield cand
