"""
C47 -- isochronous timestamp packets are decoded in full.

DUT: luna.gateware.usb.usb3.protocol.timestamp.TimestampPacketReceiver (real) behind the real
HeaderQueueDemultiplexer, next to a second header consumer played by the bench (it takes every non-ITP header
after a literal stall, like the protocol layer's other handlers).
Stimulus: a sequence of headers (ITP and other types) with literal valid-gaps; the producer holds valid+header
until the queue's ready.  Oracle: every ITP is taken by the receiver; a fixed number d (1..4, the same for the
whole run) of cycles after the ITP was taken the update strobe is high and bus_interval_counter / delta equal the
packet's DW0[5:19] / DW0[19:32]; the strobe is not raised without an ITP; non-ITP headers are not taken by the
receiver.
"""

import hashlib

from amaranth import Module, Elaboratable

from dsim.kernel import make_bench, cached_bench, Violations
from models.usb3_proto import HP_TYPE_ITP, itp_dw0, bits

PROPERTY = "C47"
ENGINE = "usb3_proto"
CLOCK_HZ = 125e6
RULES = {
    "C47.fields": "after an ITP, bus_interval_counter == DW0[5:19] (14 bits) and delta == DW0[19:32] (13 bits)",
    "C47.update": "update_received is raised for every ITP (one consistent latency of 1..4 cycles) and only for ITPs",
    "C47.consume": "the receiver takes every ITP off the header queue (within 8 cycles) and never takes another type",
}
PROBES = ["itp", "other_type", "back_to_back_itp", "itp_right_after_other", "high_counter_bits", "high_delta_bits",
          "near_miss_type", "second_consumer_stall", "itp_with_delayed_flag", "protocol_layer_runs"]
META = {
    "components_real": ["every 6th run: luna.gateware.usb.usb3.protocol.layer.USB3ProtocolLayer complete (demultiplexer, timestamp receiver and "
                        "the other packet handlers as wired there; the link layer is represented by its port signals only)", "luna.gateware.usb.usb3.protocol.timestamp.TimestampPacketReceiver",
                        "luna.gateware.usb.usb3.link.header.HeaderQueueDemultiplexer"],
    "components_stubbed": ["link-layer header queue producer (holds valid+header until ready)",
                           "second header consumer (takes every non-ITP header after a literal stall)"],
    "assumptions": ["the header queue producer holds valid and the header until it is accepted",
                    "only one consumer acknowledges a given header (the bench consumer never acknowledges ITPs)"],
    "rule": "4-40 headers per run, 30-100 % ITPs, random 27-bit payloads (biased to all-ones / single high bits), "
            "valid gaps 0-6 cycles, second-consumer stalls 0-5 cycles; thin schedule space (handshake timing only)",
}
TIERS = {"quick": {"runs": 24000, "wall": 70}, "thorough": {"runs": 90000, "wall": 900}}

MAX_LATENCY = 4
ACCEPT_BOUND = 8
TAIL = 10


LINK_FIELDS = ("crc16", "sequence_number", "dw3_reserved", "hub_depth", "delayed", "deferred", "crc5")


def _link_fields(rng):
    """ the link control word that travels with every header (set by the link partner / hubs on the way; not part of the
        timestamp): any value must leave the decoding untouched """
    if rng.random() < 0.4:
        return {}
    return {"crc16": rng.getrandbits(16), "sequence_number": rng.getrandbits(3), "dw3_reserved": rng.choice([0, 0, rng.getrandbits(3)]),
            "hub_depth": rng.choice([0, rng.getrandbits(3)]), "delayed": rng.getrandbits(1), "deferred": rng.getrandbits(1),
            "crc5": rng.getrandbits(5)}


LAYER_EVERY = 6         # every 6th run (index % 6 == 4): the receiver as USB3ProtocolLayer wires it (its `bus_interval` output)


def gen(rng, tier, index):
    if index % LAYER_EVERY == 4:
        # Protocol-layer run: only timestamp packets (the layer's other consumers are real and are not this check's business),
        # isolated and back to back, with arbitrary link control words; judged at the layer's bus_interval output.
        n = rng.randint(3, 30)
        p_gap = rng.choice([0.0, 0.3, 0.7])
        ops = [{"op": "itp", "ctr": rng.choice([rng.getrandbits(14), 0x3FFF, 1 << rng.randrange(14)]), "delta": rng.getrandbits(13),
                "dw1": rng.getrandbits(32), "dw2": rng.getrandbits(32), "gap": rng.randint(1, 6) if rng.random() < p_gap else 0,
                "link": _link_fields(rng)} for _ in range(n)]
        return {"engine": ENGINE, "config": {"dut": "protocol_layer"}, "ops": ops}
    n = rng.randint(4, 40 if tier == "quick" else 150)
    p_itp = rng.choice([0.3, 0.6, 0.85, 1.0])
    p_gap = rng.choice([0.0, 0.3, 0.7])
    ops = []
    for _ in range(n):
        gap = rng.randint(1, 6) if rng.random() < p_gap else 0
        if rng.random() < p_itp:
            mode = rng.random()
            if mode < 0.6:
                ctr, dlt = rng.getrandbits(14), rng.getrandbits(13)
            elif mode < 0.75:
                ctr, dlt = 1 << rng.randrange(14), 1 << rng.randrange(13)
            elif mode < 0.85:
                ctr, dlt = 0x3FFF, 0x1FFF
            elif mode < 0.93:
                ctr, dlt = rng.getrandbits(14) & ~1, rng.getrandbits(13) & ~1
            else:
                ctr, dlt = 0, 0
            ops.append({"op": "itp", "ctr": ctr, "delta": dlt, "dw1": rng.getrandbits(32), "dw2": rng.getrandbits(32),
                        "gap": gap, "link": _link_fields(rng)})
        else:
            typ = rng.choice([0, 4, 8, 0, 4, 8, 13, 14, 28, 12 ^ 16, 12 ^ 1, 31, rng.randrange(32)])
            if typ == HP_TYPE_ITP:
                typ = 8
            ops.append({"op": "other", "dw0": (rng.getrandbits(27) << 5) | typ, "dw1": rng.getrandbits(32),
                        "dw2": rng.getrandbits(32), "gap": gap, "stall": rng.choice([0, 0, 0, 1, 2, 5]), "link": _link_fields(rng)})
    return {"engine": ENGINE, "config": {}, "ops": ops}


class _Wrapper(Elaboratable):
    def __init__(self):
        from luna.gateware.usb.usb3.protocol.timestamp import TimestampPacketReceiver
        from luna.gateware.usb.usb3.link.header import HeaderQueueDemultiplexer, HeaderQueue
        self.demux = HeaderQueueDemultiplexer()
        self.itp = TimestampPacketReceiver()
        self.other = HeaderQueue()
        self.demux.add_consumer(self.itp.header_sink)
        self.demux.add_consumer(self.other)

    def elaborate(self, platform):
        m = Module()
        m.submodules.demux = self.demux
        m.submodules.itp = self.itp
        return m


def _bench():
    def factory():
        dut = _Wrapper()
        sink = dut.demux.sink
        ins = {"valid": sink.valid, "dw0": sink.header.dw0, "dw1": sink.header.dw1, "dw2": sink.header.dw2,
               "other_ready": dut.other.ready}
        ins.update({"l_" + f: getattr(sink.header, f) for f in LINK_FIELDS})
        outs = {"ready": sink.ready, "itp_ready": dut.itp.header_sink.ready, "update": dut.itp.update_received,
                "ctr": dut.itp.bus_interval_counter, "delta": dut.itp.delta}
        return make_bench(dut, clocks={"ss": 1 / 125e6}, main="ss", ins=ins, outs=outs)
    return cached_bench(("c47",), factory)


class _Actor:
    def __init__(self, scn, viol, probes):
        self.ops = scn["ops"]
        self.viol = viol
        self.probes = probes
        self.i = 0                 # current op
        self.gap_left = self.ops[0]["gap"] if self.ops else 0
        self.presented = 0         # cycles the current header has been presented
        self.cur = None            # what is driven in this cycle: None (idle) or the op
        self.other_ready = 0
        self.taken = {}            # cycle -> op of each ITP transfer
        self.d = None
        self.first_itp_t = None
        self.hist = []             # per-cycle (update, ctr, delta)
        self.done_at = None
        self.dead = False
        self.classes = set()
        self.prev_kind = None
        self.prev_transfer_t = -5

    def drive(self, t):
        if self.i >= len(self.ops):
            self.cur = None
            return {"valid": 0, "other_ready": 0}
        if self.gap_left > 0:
            self.gap_left -= 1
            self.cur = None
            return {"valid": 0, "other_ready": 0}
        op = self.ops[self.i]
        self.cur = op
        if op["op"] == "itp":
            from_model = itp_dw0(op["ctr"], op["delta"])
            self.other_ready = 0
            pins = {"valid": 1, "dw0": from_model, "dw1": op["dw1"], "dw2": op["dw2"], "other_ready": 0}
            pins.update({"l_" + f: op.get("link", {}).get(f, 0) for f in LINK_FIELDS})
            if op.get("link", {}).get("delayed"):
                self.probes["itp_with_delayed_flag"] += 0 if self.presented else 1
            return pins
        self.other_ready = int(self.presented >= op["stall"])
        pins = {"valid": 1, "dw0": op["dw0"], "dw1": op["dw1"], "dw2": op["dw2"], "other_ready": self.other_ready}
        pins.update({"l_" + f: op.get("link", {}).get(f, 0) for f in LINK_FIELDS})
        return pins

    def _fail(self, rule, t, msg, **shape):
        self.viol.add(rule, t, msg, **shape)
        self.dead = True
        return True

    def observe(self, t, o):
        if self.dead:
            return True
        pr = self.probes
        self.hist.append((o["update"], o["ctr"], o["delta"]))
        op = self.cur
        # ---- queue handshake ------------------------------------------------------------------------
        if op is not None:
            if op["op"] == "itp":
                if o["itp_ready"] and o["ready"]:
                    self.taken[t] = op
                    pr["itp"] += 1
                    if op["ctr"] >> 1:
                        pr["high_counter_bits"] += 1
                    if op["delta"] >> 1:
                        pr["high_delta_bits"] += 1
                    if t - self.prev_transfer_t == 1:
                        pr["back_to_back_itp" if self.prev_kind == "itp" else "itp_right_after_other"] += 1
                    self.classes.add(("itp", min(t - self.prev_transfer_t, 3), self.prev_kind))
                    self._advance(t, "itp")
                else:
                    self.presented += 1
                    if self.presented > ACCEPT_BOUND:
                        return self._fail("C47.consume", t, f"ITP presented for {self.presented} cycles and not accepted",
                                          kind="itp_not_accepted")
            else:
                if o["itp_ready"]:
                    return self._fail("C47.consume", t,
                                      f"receiver acknowledged a header of type {op['dw0'] & 31} (ITP is {HP_TYPE_ITP})",
                                      kind="foreign_type_taken", type=op["dw0"] & 31)
                if not self.other_ready:
                    pr["second_consumer_stall"] += 1
                if self.other_ready and o["ready"]:
                    pr["other_type"] += 1
                    if bin((op["dw0"] & 31) ^ HP_TYPE_ITP).count("1") == 1:
                        pr["near_miss_type"] += 1
                    self.classes.add(("other", op["dw0"] & 31 if (op["dw0"] & 31) in (0, 4, 8) else "odd"))
                    self._advance(t, "other")
                elif self.other_ready and not o["ready"]:
                    raise RuntimeError("demultiplexer did not forward the second consumer's ready")
                else:
                    self.presented += 1
        # ---- outputs: latency d is fixed by the first ITP -------------------------------------------------
        if self.d is None and self.taken:
            t0 = min(self.taken)
            if t > t0:
                if o["update"]:
                    self.d = t - t0
                elif t - t0 >= MAX_LATENCY:
                    return self._fail("C47.update", t, f"no update strobe within {MAX_LATENCY} cycles of the ITP taken in cycle {t0}",
                                      kind="no_strobe")
        if self.d is not None:
            src = self.taken.get(t - self.d)
            if src is not None:
                if not o["update"]:
                    return self._fail("C47.update", t, f"ITP taken in cycle {t - self.d}: update strobe low {self.d} cycles later "
                                      f"(latency of the first ITP in this run)", kind="no_strobe")
                for name, key, width in (("bus_interval_counter", "ctr", 14), ("delta", "delta", 13)):
                    want, got = src[key], o[key]
                    if want != got:
                        kept = next((w for w in range(1, width + 1) if got == want & ((1 << w) - 1)), -1)
                        return self._fail("C47.fields", t,
                                          f"ITP with counter={src['ctr']:#06x} delta={src['delta']:#06x}: {name} reads {got:#x}, "
                                          f"expected {want:#x}", field=name, kept_low_bits=kept)
            elif o["update"] and t >= self.d:
                return self._fail("C47.update", t, f"update strobe high although no ITP was taken {self.d} cycles earlier",
                                  kind="spurious_strobe")
        elif o["update"] and not self.taken:
            return self._fail("C47.update", t, "update strobe high before any ITP was taken", kind="spurious_strobe")
        # ---- end ----------------------------------------------------------------------------------------
        if self.i >= len(self.ops):
            if self.done_at is None:
                self.done_at = t
            return t >= self.done_at + TAIL
        return False

    def _advance(self, t, kind):
        self.prev_kind = kind
        self.prev_transfer_t = t
        self.i += 1
        self.presented = 0
        self.gap_left = self.ops[self.i]["gap"] if self.i < len(self.ops) else 0


def _layer_bench():
    def factory():
        from luna.gateware.usb.usb3.protocol.layer import USB3ProtocolLayer
        from luna.gateware.usb.usb3.link.layer import USB3LinkLayer

        class _NoPHY:
            pass
        link = USB3LinkLayer(physical_layer=_NoPHY())        # never elaborated: only its port signals stand in for the link layer
        dut = USB3ProtocolLayer(link_layer=link)
        src = link.header_source
        ins = {"valid": src.valid, "dw0": src.header.dw0, "dw1": src.header.dw1, "dw2": src.header.dw2}
        ins.update({"l_" + f: getattr(src.header, f) for f in LINK_FIELDS})
        outs = {"ready": src.ready, "bus_interval": dut.bus_interval}
        return make_bench(dut, clocks={"ss": 1 / 125e6}, main="ss", ins=ins, outs=outs)
    return cached_bench(("c47", "layer"), factory)


def _run_layer(scn):
    bench = _layer_bench()
    viol = Violations()
    probes = {p: 0 for p in PROBES}
    ops = scn["ops"]
    SETTLE = 4

    class Actor:
        def __init__(self):
            self.i, self.gap = 0, ops[0]["gap"] if ops else 0
            self.presented = 0
            self.taken = []                 # (cycle, ctr)
            self.hist = []
            self.cur = None
            self.tail = 0

        def drive(self, t):
            if self.i >= len(ops):
                self.cur = None
                return {"valid": 0}
            if self.gap > 0:
                self.gap -= 1
                self.cur = None
                return {"valid": 0}
            op = self.cur = ops[self.i]
            pins = {"valid": 1, "dw0": itp_dw0(op["ctr"], op["delta"]), "dw1": op["dw1"], "dw2": op["dw2"]}
            pins.update({"l_" + f: op.get("link", {}).get(f, 0) for f in LINK_FIELDS})
            return pins

        def observe(self, t, o):
            self.hist.append(o["bus_interval"])
            if self.cur is not None:
                if o["ready"]:
                    self.taken.append((t, self.cur["ctr"]))
                    if self.presented == 0 and self.taken[-2:-1] and self.taken[-2][0] == t - 1:
                        probes["back_to_back_itp"] += 1
                    probes["itp"] += 1
                    if self.cur.get("link", {}).get("delayed"):
                        probes["itp_with_delayed_flag"] += 1
                    self.i += 1
                    self.presented = 0
                    self.gap = ops[self.i]["gap"] if self.i < len(ops) else 0
                else:
                    self.presented += 1
                    if self.presented > ACCEPT_BOUND and not viol:
                        viol.add("C47.consume", t, f"protocol layer: timestamp packet #{self.i} has been offered for {self.presented} "
                                 f"cycles without being taken off the header queue", dut="protocol_layer")
                        return True
            if self.i >= len(ops):
                self.tail += 1
                return self.tail > SETTLE + 4
            return False

    a = Actor()
    log = bench.run([a], max_cycles=sum(op["gap"] + ACCEPT_BOUND + 2 for op in ops) + 40)
    if not viol:
        for k, (t, ctr) in enumerate(a.taken):
            t_next = a.taken[k + 1][0] if k + 1 < len(a.taken) else len(a.hist) - 1
            # from SETTLE cycles after the packet was taken until the next one is taken, the layer shows this packet's counter
            for c in range(t + SETTLE, min(t_next, len(a.hist) - 1) + 1):
                if a.hist[c] != ctr:
                    viol.add("C47.fields", c, f"protocol layer: bus_interval={a.hist[c]:#x} in cycle {c}; the last timestamp packet taken "
                             f"(cycle {t}) carried bus interval counter {ctr:#x}", dut="protocol_layer",
                             back_to_back=bool(k and a.taken[k - 1][0] == t - 1))
                    break
            if viol:
                break
    probes["protocol_layer_runs"] = 1
    sig = hashlib.blake2b(repr(("layer", len(ops), sorted(set(op["gap"] for op in ops)))).encode(), digest_size=8).hexdigest()
    return {"violations": viol.items, "cycles": log.cycles, "faults": {"producer_gap": sum(1 for op in ops if op["gap"])},
            "probes": probes, "sig": sig, "nontrivial": len(a.taken) > 1, "digest": log.digest, "fsm": len(log.fsm_vectors)}


def run(scn):
    if scn["config"].get("dut") == "protocol_layer":
        return _run_layer(scn)
    bench = _bench()
    viol = Violations()
    probes = {p: 0 for p in PROBES}
    actor = _Actor(scn, viol, probes)
    budget = sum(op["gap"] + op.get("stall", 0) + ACCEPT_BOUND + 2 for op in scn["ops"]) + TAIL + 8
    log = bench.run([actor], max_cycles=budget)
    if not viol and actor.i < len(scn["ops"]):
        raise RuntimeError("script did not finish")
    sig = hashlib.blake2b(repr(sorted(map(repr, actor.classes))).encode(), digest_size=8).hexdigest()
    faults = {"producer_gap": sum(1 for op in scn["ops"] if op["gap"]),
              "ready_stall": probes["second_consumer_stall"],
              "near_miss_type": probes["near_miss_type"]}
    return {"violations": viol.items, "cycles": log.cycles, "faults": faults, "probes": probes, "sig": sig,
            "nontrivial": probes["itp"] > 0, "digest": log.digest, "fsm": len(log.fsm_vectors)}


def shrink_candidates(scn):
    import copy
    for i, op in enumerate(scn["ops"]):
        if op["gap"] or op.get("stall"):
            cand = copy.deepcopy(scn)
            cand["ops"][i]["gap"] = 0
            if "stall" in cand["ops"][i]:
                cand["ops"][i]["stall"] = 0
            yield cand
