"""
C01 -- USB2 tokens are reported iff well-formed and addressed to the device.

DUT: luna.gateware.usb.usb2.packet.USBTokenDetector (real, standalone, filter_by_address=True) in both supported
clockings ((60 MHz, all speeds) and (12 MHz, fs_only)).  The UTMI receive side and the `address` input are a literal
per-cycle waveform rendered from the scenario.  Oracle: an independent parser (models.usb2: own bit-serial CRC5) over the
bytes actually *sent* predicts, per packet, the one event that must follow it (or none); observed events are all
cycles with new_token / new_frame.
"""

import hashlib

from dsim.kernel import make_bench, cached_bench, Violations
from models import usb2
from models.usb2 import token_packet, sof_packet, data_packet, handshake_packet, apply_fault, parse_token
from models.usb2_wire import render_rx, WaveActor, rand_timing, gen_idle_data

PROPERTY = "C01"
ENGINE = "usb2_wire"
CLOCK_HZ = 60e6
RULES = {
    "C01.event_sequence": "every well-formed token addressed to the current address yields exactly one new_token with the "
                          "sent PID, address and endpoint; every well-formed SOF exactly one new_frame with its frame number",
    "C01.no_spurious": "truncated, over-long, corrupted, aborted, foreign-address and non-token packets never produce an event",
    "C01.attribution": "the event of a packet is raised after the packet has ended, within 4 cycles, before the next packet's event",
    "C01.sof_any_address": "a well-formed SOF updates the frame number regardless of the device address",
}
PROBES = ["crc5_field_corrupt", "protected_bits_corrupt", "foreign_addr_one_bit_off", "stale_address_token", "ping_token",
          "overlong_with_valid_prefix", "truncated_to_2", "aborted_token", "gap_1_cycle", "sof_low_bits_ne_address",
          "valid_token_after_faulty", "bad_pid_nibble", "token_with_byte_gaps", "special_pid_3_bytes",
          "overlong_ending_in_wellformed_token", "rx_data_junk_while_rx_valid_low"]
META = {
    "components_real": ["luna.gateware.usb.usb2.packet.USBTokenDetector (+ its private USBInterpacketTimer)"],
    "components_stubbed": ["UTMI PHY receive side + host: literal waveform (models.usb2_wire.render_rx)",
                           "device address register: literal pin changes between packets"],
    "assumptions": ["legal UTMI receive side: rx_valid only while rx_active; rx_active rises >= 1 cycle before the first byte and "
                    "is low for >= 1 cycle between packets",
                    "the address input changes only while rx_active is low, at least one cycle after a packet ended "
                    "('current address' = the value in the cycle rx_active falls)"],
    "rule": "history of 12-60 packets: valid IN/OUT/SETUP/PING tokens for the current / a foreign / the previous address, SOFs, "
            "faulty tokens (corrupt_bit 1-2 flips, truncate, extend, bad_pid_nibble, abort_rx), special-PID 3-byte packets, "
            "data/handshake/garbage packets; per-packet byte period, gap pattern, pre/post, inter-packet idle 1-12; address "
            "changes between packets",
}
TIERS = {"quick": {"runs": 24000, "wall": 70}, "thorough": {"runs": 120000, "wall": 900}}

_TOK = ["IN", "OUT", "SETUP", "PING"]


def gen(rng, tier, index):
    cfg = {"clock": rng.choice(["60", "60", "12"]), "speed": rng.choice([0, 1, 1, 2])}
    fault_free = rng.random() < 0.15
    n = rng.randint(12, 40 if tier == "quick" else 60)
    address = rng.choice([0, 0, rng.randrange(128)])
    prev_address = None
    ops = [{"op": "set", "pins": {"address": address}}]
    slow = rng.random() < 0.1
    kinds_enabled = [k for k in ("corrupt_bit", "truncate", "extend", "bad_pid_nibble", "abort_rx") if rng.random() < 0.7] or ["corrupt_bit"]
    for _ in range(n):
        if rng.random() < 0.2:
            prev_address = address
            address = rng.choice([rng.randrange(128), address ^ (1 << rng.randrange(7)), 0])
            ops.append({"op": "idle", "n": rng.randint(1, 3)})
            ops.append({"op": "set", "pins": {"address": address}})
            ops.append({"op": "idle", "n": rng.randint(0, 3)})
        op = {"op": "pkt", "idle": rng.choice([1, 1, 2, 3, 5, 8, 12])}
        op.update(rand_timing(rng, slow))
        r = rng.random()
        what = None
        if r < 0.30 or fault_free and r < 0.6:
            raw = token_packet(rng.choice(_TOK), address, rng.randrange(16))
            what = "token"
        elif r < 0.42:
            a = rng.choice([address ^ (1 << rng.randrange(7)), rng.randrange(128),
                            prev_address if prev_address is not None else rng.randrange(128)])
            raw = token_packet(rng.choice(_TOK), a, rng.randrange(16))
            what = "token_other_addr"
        elif r < 0.54:
            f = rng.choice([rng.getrandbits(11), (rng.getrandbits(4) << 7) | address, rng.getrandbits(11)])
            raw = sof_packet(f)
            what = "sof"
        elif r < 0.84 and not fault_free:
            base = sof_packet(rng.getrandbits(11)) if rng.random() < 0.25 else token_packet(rng.choice(_TOK), address, rng.randrange(16))
            k = rng.choice(kinds_enabled)
            if k == "corrupt_bit":
                lo = 19 if rng.random() < 0.25 else 0            # a quarter of the flips hit the CRC5 field only
                f = {"kind": k, "bits": sorted(set(rng.randrange(lo, 24) for _ in range(rng.choice([1, 1, 2]))))}
            elif k == "truncate":
                f = {"kind": k, "to": rng.choice([1, 2, 2])}
            elif k == "extend":
                f = {"kind": k, "extra": bytes(rng.getrandbits(8) for _ in range(rng.randint(1, 3))).hex()}
                if rng.random() < 0.4:
                    # the surplus bytes end in a complete, well-formed token for this device (or a SOF): still ONE over-long,
                    # malformed packet -- its tail must not be parsed as a token of its own
                    tail = sof_packet(rng.getrandbits(11)) if rng.random() < 0.3 else token_packet(rng.choice(_TOK), address, rng.randrange(16))
                    f["extra"] = (bytes(rng.getrandbits(8) for _ in range(rng.randint(1, 3))) + tail).hex()
                    if rng.random() < 0.5:
                        base = token_packet(rng.choice(_TOK), rng.randrange(128), rng.randrange(16))     # head for any address
            elif k == "bad_pid_nibble":
                f = {"kind": k, "bit": rng.randrange(8)}
            else:
                f = None
                op["abort_at"] = rng.choice([0, 1, 2, 2])
            raw = apply_fault(base, f)
            op["fault"] = f or {"kind": "abort_rx"}
            what = "faulty_token"
        elif r < 0.88:
            # a 3-byte packet with a valid non-token PID and a correct CRC5: not a token
            pid = rng.choice(["SPLIT", "PRE", "ACK", "DATA0", "NYET", "MDATA"])
            base = token_packet("IN", address, rng.randrange(16))
            raw = bytes([usb2.pid_byte(pid)]) + base[1:]
            what = "special_pid"
        elif r < 0.93:
            raw = data_packet(rng.choice(usb2.DATA_PIDS), bytes(rng.getrandbits(8) for _ in range(rng.choice([0, 1, 2, 5, 9]))))
            what = "data"
        elif r < 0.97:
            raw = handshake_packet(rng.choice(usb2.HANDSHAKE_PIDS))
            what = "handshake"
        else:
            raw = bytes(rng.getrandbits(8) for _ in range(rng.randint(1, 6)))
            what = "garbage"
        op["bytes"] = raw.hex()
        op["what"] = what
        ops.append(op)
    cfg["idle_data"] = gen_idle_data(rng)
    return {"engine": ENGINE, "config": cfg, "ops": ops}


def _bench(clock):
    def factory():
        from luna.gateware.interface.utmi import UTMIInterface
        from luna.gateware.usb.usb2.packet import USBTokenDetector
        utmi = UTMIInterface()
        if clock == "12":
            dut = USBTokenDetector(utmi=utmi, filter_by_address=True, domain_clock=12e6, fs_only=True)
        else:
            dut = USBTokenDetector(utmi=utmi, filter_by_address=True, domain_clock=60e6, fs_only=False)
        i = dut.interface
        ins = {"rx_data": utmi.rx_data, "rx_active": utmi.rx_active, "rx_valid": utmi.rx_valid,
               "address": dut.address, "speed": dut.speed}
        outs = {"new_token": i.new_token, "pid": i.pid, "tok_address": i.address, "endpoint": i.endpoint,
                "new_frame": i.new_frame, "frame": i.frame}
        return make_bench(dut, clocks={"usb": 1 / 60e6}, main="usb", ins=ins, outs=outs)
    return cached_bench(("c01", clock), factory)


LATENCY_BOUND = 4


def run(scn):
    cfg = scn["config"]
    ops = scn["ops"]
    bench = _bench(cfg["clock"])
    wave, packets = render_rx(ops, side={"address": 0, "speed": cfg["speed"]}, idle_data=cfg.get("idle_data"))
    junk_runs = int(cfg.get("idle_data") is not None)
    actor = WaveActor(wave)
    log = bench.run([actor], max_cycles=len(wave) + 4)
    if len(actor.samples) < len(wave):
        raise RuntimeError("waveform was not played completely")
    viol = Violations()
    probes = {p: 0 for p in PROBES}
    probes["rx_data_junk_while_rx_valid_low"] = junk_runs
    faults = {}
    outcomes = set()

    events = []
    for t, o in enumerate(actor.samples):
        if o["new_token"]:
            events.append((t, ("token", o["pid"], o["tok_address"], o["endpoint"])))
        if o["new_frame"]:
            events.append((t, ("frame", o["frame"])))

    # ---- expectation per packet, from the bytes that were really sent ----
    prev_faulty = False
    ei = 0
    first_end = packets[0]["t_end"] if packets else len(wave)
    while ei < len(events) and events[ei][0] < first_end:
        viol.add("C01.no_spurious", events[ei][0], f"event {events[ei][1]} before any packet had ended", after="nothing", event=events[ei][1][0])
        ei += 1
    for k, p in enumerate(packets):
        op = ops[p["op"]]
        sent = p["sent"]
        address = p["side"]["address"]
        what = op.get("what", "?")
        fkind = (op.get("fault") or {}).get("kind")
        if fkind:
            faults[fkind] = faults.get(fkind, 0) + 1
        parsed = parse_token(sent)
        expect = None
        if parsed is not None:
            if parsed[0] == "SOF":
                expect = ("frame", parsed[1])
                if (parsed[1] & 0x7F) != address:
                    probes["sof_low_bits_ne_address"] += 1
            elif parsed[1] == address:
                expect = ("token", usb2.PID[parsed[0]], parsed[1], parsed[2])
                if parsed[0] == "PING":
                    probes["ping_token"] += 1
                if prev_faulty:
                    probes["valid_token_after_faulty"] += 1
                if len(set(b - a for a, b in zip(p["byte_cycles"], p["byte_cycles"][1:]))) > 1 or \
                        (len(p["byte_cycles"]) > 1 and p["byte_cycles"][1] - p["byte_cycles"][0] > 1):
                    probes["token_with_byte_gaps"] += 1
            else:
                faults["foreign_address"] = faults.get("foreign_address", 0) + 1
                if bin(parsed[1] ^ address).count("1") == 1:
                    probes["foreign_addr_one_bit_off"] += 1
                if what == "token_other_addr" and k > 0 and parsed[1] == packets[k - 1]["side"]["address"]:
                    probes["stale_address_token"] += 1
        # ---- probes on the fault actually applied ----
        if fkind == "corrupt_bit":
            bits = op["fault"]["bits"]
            if all(b >= 19 for b in bits):
                probes["crc5_field_corrupt"] += 1
            if any(8 <= b < 19 for b in bits):
                probes["protected_bits_corrupt"] += 1
        if fkind == "extend" and parse_token(sent[:3]) is not None:
            probes["overlong_with_valid_prefix"] += 1
        if fkind == "extend" and len(sent) >= 7 and parse_token(sent[:3]) is not None and parse_token(sent[-3:]) is not None:
            probes["overlong_ending_in_wellformed_token"] += 1
        if len(sent) == 2 and fkind in ("truncate", "abort_rx"):
            probes["truncated_to_2"] += 1
        if fkind == "abort_rx":
            probes["aborted_token"] += 1
        if fkind == "bad_pid_nibble":
            probes["bad_pid_nibble"] += 1
        if what == "special_pid":
            probes["special_pid_3_bytes"] += 1
        if op.get("idle", 1) == 1 and k + 1 < len(packets) and packets[k + 1]["t_start"] == p["t_end"] + 1:
            probes["gap_1_cycle"] += 1

        t_end = p["t_end"]
        w_end = packets[k + 1]["t_end"] if k + 1 < len(packets) else len(actor.samples)
        got = []
        while ei < len(events) and events[ei][0] < w_end:
            got.append(events[ei])
            ei += 1
        cls = fkind or what
        shape = {"clock": cfg["clock"], "packet": cls}
        if expect is None:
            outcomes.add("none:" + cls)
            if got:
                viol.add("C01.no_spurious", got[0][0], f"packet {sent.hex()} ({cls}; device address {address}) must not produce an "
                         f"event, observed {got[0][1]} at cycle {got[0][0]}", event=got[0][1][0], **shape)
        else:
            outcomes.add(expect[0])
            rule = "C01.sof_any_address" if expect[0] == "frame" and (expect[1] & 0x7F) != address else "C01.event_sequence"
            if not got:
                viol.add(rule, t_end, f"packet {sent.hex()} (device address {address}) ended at cycle {t_end}: expected {expect}, "
                         f"no event before the next packet ended (cycle {w_end})", problem="missing", **shape)
            elif len(got) > 1:
                viol.add(rule, got[1][0], f"packet {sent.hex()}: expected exactly one event {expect}, observed {[g[1] for g in got]}",
                         problem="duplicate", **shape)
            elif got[0][1] != expect:
                viol.add(rule, got[0][0], f"packet {sent.hex()} (device address {address}): expected {expect}, observed {got[0][1]}",
                         problem="fields", **shape)
            elif got[0][0] - t_end > LATENCY_BOUND:
                viol.add("C01.attribution", got[0][0], f"event {expect} raised {got[0][0] - t_end} cycles after its packet ended "
                         f"(bound {LATENCY_BOUND})", problem="late", **shape)
        prev_faulty = expect is None and what in ("faulty_token", "garbage", "special_pid")

    sig = hashlib.blake2b(repr((cfg["clock"], sorted(log.fsm_vectors), sorted(faults), sorted(outcomes))).encode(),
                          digest_size=8).hexdigest()
    return {"violations": viol.items, "cycles": log.cycles, "faults": faults, "probes": probes, "sig": sig,
            "nontrivial": bool(faults) and ("token" in outcomes or "frame" in outcomes), "digest": log.digest,
            "fsm": len(log.fsm_vectors)}


def shrink_candidates(scn):
    """ simplify packet timing towards the plainest waveform """
    import copy
    for i, op in enumerate(scn["ops"]):
        if op.get("op") == "pkt" and (op.get("period", 1) != 1 or op.get("gaps") or op.get("pre", 1) != 1 or op.get("post", 0)):
            cand = copy.deepcopy(scn)
            cand["ops"][i].update({"period": 1, "gaps": None, "pre": 1, "post": 0})
            yield cand
