"""
C08 -- device address and configuration change only when their request completes.

DUT: the complete USBDevice (V1 12 MHz / V2 60 MHz timing) with the standard control endpoint, a bulk IN endpoint
(EP1, always has data) and the passive spy endpoint that shows `active_address` / `active_config`.

The host actor plays SET_ADDRESS / SET_CONFIGURATION control transfers with: IN transfers on EP1 (data + host ACK)
between the setup stage and the status stage, lost status-stage handshakes (status IN re-issued), abandoned requests,
probe tokens at the old / new / previous address, bus resets (SE0 >= 5 us, or VBUS loss) at arbitrary points and
GET_CONFIGURATION read-backs.  A spec-level model (address, configuration, pending request) is advanced by the host's
own actions only; the spy registers are compared with it every cycle, the probe tokens compare it black-box.

"Bus resets at arbitrary times" also covers the state of the device's own bus-state tracking when the reset arrives and
the speed capability of the device: the V2 device is run both restricted to full speed (full_speed_only = 1) and
high-speed capable (full_speed_only = 0: a reset starts the high-speed detection handshake, which is not simulated -- such a
run ends with the reset), and a stratified handful of runs keeps the bus idle for > 3 ms so that the device suspends; the
suspend is then ended by a bus reset, by a resume (K) or by a glitch followed by one of them.  Whether a long SE0 was a bus
reset is decided from the line-state history the host itself produced (SE0 held for >= LONG_SE0 cycles, several times any
detection threshold), never from the device's reset_detected output; only marginal SE0 lengths are left to the device.
"""

import hashlib

from dsim.kernel import Violations
from models.usb2_wire import gen_idle_data
from models import usb2
from models.usb2 import UTMIHost
from models.usb2_ctrl import Txn, StreamFeeder, setup_bytes, is_data
from engines.usb2_device import device_bench, IDLE_INIT, CLOCK_HZ as CLOCKS

PROPERTY = "C08"
ENGINE = "usb2_device"
CLOCK_HZ = 60e6
RULES = {
    "C08.commit_point": "address/configuration change exactly once and only at the host's ACK of the status-stage ZLP of the "
                        "SET_ADDRESS/SET_CONFIGURATION request that carries them (not earlier, not later, not without it)",
    "C08.value": "the committed value is wValue[6:0] (address) / wValue[7:0] (configuration) of that request; "
                 "GET_CONFIGURATION returns the configuration in effect",
    "C08.other_ep_ack_no_commit": "the host's ACK of another endpoint's IN data never commits a pending request",
    "C08.abandoned_no_effect": "a request that was abandoned (superseded by a newer SETUP, or wiped by a bus reset) before its "
                               "status stage was acknowledged never takes effect later",
    "C08.old_address_until_commit": "while a SET_ADDRESS is in flight tokens at the old address are answered and tokens at the "
                                    "new address are not",
    "C08.address_in_effect": "tokens are answered iff they carry the address in effect (black-box probe tokens)",
    "C08.reset_clears": "after a reported bus reset address and configuration are 0; and once the host has held SE0 on the "
                        "line for LONG_SE0 cycles (>= 20 us, a bus reset by the line-state history alone -- whether or not the "
                        "device reports one, in whatever state (active, suspended) and speed capability it is) they are 0",
}
PROBES = ["other_ep_ack_while_pending", "status_retry_after_lost_ack", "reset_while_pending", "addr_value_gt_127",
          "probe_new_addr_before_commit", "probe_old_addr_after_commit", "commit_address", "commit_config",
          "abandoned_request", "other_ep_ack_after_unacked_zlp", "get_config_readback",
          "other_device_ack_while_pending", "other_device_ack_after_unacked_zlp", "other_ep_even_number_ack_while_pending",
          "long_se0_reset", "long_se0_reset_nonzero_state", "reset_hs_capable", "suspended_reached", "reset_while_suspended",
          "reset_while_suspended_hs_capable", "reset_while_suspended_nonzero_state", "resume_from_suspend",
          "traffic_after_suspend"]
META = {
    "components_real": ["USBDevice", "USBControlEndpoint", "StandardRequestHandler", "USBRequestHandlerMultiplexer",
                        "USBSetupDecoder", "USBTokenDetector", "USBHandshakeDetector", "USBHandshakeGenerator",
                        "USBDataPacketGenerator", "USBEndpointMultiplexer", "USBResetSequencer", "USBStreamInEndpoint",
                        "GetDescriptorHandlerBlock"],
    "components_stubbed": ["UTMI PHY + host (models.usb2.UTMIHost, models.usb2_ctrl.Txn)", "EP1 stream producer",
                           "passive spy endpoint / spy request handler (observation only)"],
    "assumptions": ["legal UTMI receive side; the host never transmits while the device transmits",
                    "the host idles >= 12 cycles after the ACK of a status stage (the change may take up to 8 cycles)",
                    "SET_ADDRESS/SET_CONFIGURATION are sent well-formed (bmRequestType 0x00, wIndex 0, wLength 0)",
                    "SE0 shorter than LONG_SE0 cycles and VBUS loss are a bus reset iff the device reports one on reset_detected "
                    "(marginal lengths); SE0 held for >= LONG_SE0 = 1200 cycles (20 us at 60 MHz, 100 us at 12 MHz; the "
                    "time-compressed stand-in for the host's >= 10 ms reset, 4x / 8x the 5 us / 2.5 us detection thresholds) IS a "
                    "bus reset, decided from the driven line state only; no traffic during it",
                    "after a bus reset the host starts with a new SETUP before it issues an EP0 IN token",
                    "a high-speed capable device (V2, full_speed_only = 0) starts the high-speed detection handshake on a reset; "
                    "the handshake is not simulated: the run ends with the first reported reset or SE0 longer than GLITCH_MAX = 100 cycles "
                    "(the registers are observed on the spy pins; no post-reset traffic is needed)",
                    "suspend = the line stays at J for > 180000 cycles (3 ms of the sequencer's constants); resume is time-"
                    "compressed (K for 50..2000 cycles, a 2-low-speed-bit SE0, then J); the host sends nothing to a suspended device"],
    "rule": "6-30 host operations: SET_ADDRESS/SET_CONFIGURATION setup stages, status IN tokens with/without host ACK, EP1 IN "
            "transfers with/without ACK, probe tokens at current/pending/previous/foreign addresses, GET_CONFIGURATION, SOFs, bus "
            "resets (SE0 short / marginal / long, VBUS loss); timing variant, speed capability (V2: full_speed_only 1 or 0), byte "
            "period, turnaround and gaps per run; ~15 % of the runs fault-free.  Stratified suspend runs (quick: 8, thorough: 1 in "
            "300; grid V2-high-speed-capable / V2-full-speed-only / V1 x what ends the suspend): 1-3 episodes beginning with a clean "
            "SET request, > 3 ms idle, then a long SE0 reset | a marginal SE0 | a resume, optionally after a sub-threshold SE0 "
            "glitch; then (unless the device went into high-speed detection) more episodes, resets and a final probe",
}
TIERS = {"quick": {"runs": 2000, "wall": 90, "shrink_budget": 48}, "thorough": {"runs": 36000, "wall": 900, "shrink_budget": 48}}

DEV_CFG = {v: {"variant": v, "ep0_mps": 64, "endpoints": [{"kind": "stream_in", "ep": 1, "mps": 8},
                                                         {"kind": "stream_in", "ep": 2, "mps": 8}]} for v in ("V1", "V2")}
DATA_EPS = (1, 2)             # bulk IN endpoints that always have data (an odd and an even endpoint number)
SLACK = 8
RESET_CYCLES = 300            # 5 us at the sequencer's 60 MHz constants
LONG_SE0 = 1200               # SE0 held this long is a bus reset by the input history alone (20 us @ 60 MHz, 100 us @ 12 MHz)
SUSPEND_CYCLES = 180000       # 3 ms at the sequencer's 60 MHz constants
GLITCH_MAX = 100              # SE0 of <= 1.67 us: far below the 2.5 us minimum reset-detection time
LINE_K = 0b10                 # full-speed K (resume signalling)
SUSPEND_STRIDE = {"quick": 32, "thorough": 300}     # one suspend run per this many indices ...
SUSPEND_COUNT = {"quick": 8, "thorough": 1 << 30}   # ... for the first so many strides
# (device class, what ends the suspend); the first 8 (= the quick tier) hold every class with a long reset, and a resume
SUSPEND_GRID = [("V2hs", "long_reset"), ("V1", "long_reset"), ("V2hs", "resume"), ("V2fs", "long_reset"),
                ("V2hs", "long_reset"), ("V1", "other"), ("V2hs", "long_reset"), ("V2fs", "other"),
                ("V2hs", "other"), ("V1", "long_reset"), ("V2hs", "long_reset"), ("V2fs", "resume")]
SUSPEND_PHASE = 2             # position of the suspend run inside its stride (index 2: covered by selftest-determinism)


# ------------------------------------------------------------------------------------------------
def _value(rng, req):
    if req == "addr":
        r = rng.random()
        if r < 0.55:
            return rng.randint(1, 127)
        if r < 0.80:
            return rng.getrandbits(16) | 0x80          # > 127: only the low 7 bits count
        if r < 0.9:
            return 0
        return rng.choice([1, 2, 64, 127, 128, 255, 0x7F00, 0xFFFF])
    r = rng.random()
    if r < 0.6:
        return rng.randint(0, 255)
    if r < 0.85:
        return rng.getrandbits(16)
    return rng.choice([0, 1, 2, 255, 256, 0x100 | 1])


def _between(rng, ops, fault_free):
    """ traffic placed between the stages of a request """
    n = rng.choice([0, 0, 1, 1, 2, 3])
    if fault_free:
        n = 0
    for _ in range(n):
        r = rng.random()
        if r < 0.45:
            ops.append({"op": "in", "ep": rng.choice(DATA_EPS), "addr": "cur", "ack": True})
        elif r < 0.55:
            ops.append({"op": "in", "ep": rng.choice(DATA_EPS), "addr": "cur", "ack": False})
        elif r < 0.70:
            ops.append({"op": "in", "ep": rng.choice([0, 1, 2]), "addr": "pend", "ack": True})
        elif r < 0.78:
            # an IN transaction of ANOTHER device on the same bus: this device sees the token and the host's ACK (downstream
            # traffic is broadcast), not the other device's data
            ops.append({"op": "in", "ep": rng.choice([0, 0, 1, 2]), "addr": rng.randint(0, 127), "ack": True,
                        "foreign_data_cycles": rng.choice([3, 6, 12, 20])})
        elif r < 0.88:
            ops.append({"op": "sof", "frame": rng.getrandbits(11)})
        else:
            ops.append({"op": "idle", "n": rng.randint(1, 80)})


def _episode(rng, ops, fault_free, clean_set=False):
    r = 0.0 if clean_set else rng.random()
    if r < 0.72:
        req = rng.choice(["addr", "addr", "cfg"])
        ops.append({"op": "set", "req": req, "value": _value(rng, req)})
        if not clean_set:
            _between(rng, ops, fault_free)
        q = 0.0 if clean_set else rng.random()
        if fault_free or q < 0.62:
            ops.append({"op": "status", "ack": True})
        elif q < 0.85:
            ops.append({"op": "status", "ack": False})            # lost handshake
            _between(rng, ops, fault_free)
            if rng.random() < 0.8:
                ops.append({"op": "status", "ack": True})         # the host re-issues the status IN
        # else: abandoned before the status stage
        if rng.random() < 0.7:
            ops.append({"op": "in", "ep": rng.choice(DATA_EPS), "addr": rng.choice(["cur", "cur", "prev", "prev"]), "ack": rng.random() < 0.8})
    elif r < 0.82:
        ops.append({"op": "get_config"})
    elif r < 0.92:
        ops.append({"op": "in", "ep": rng.choice(DATA_EPS), "addr": rng.choice(["cur", "prev", rng.randint(0, 127)]), "ack": rng.random() < 0.8})
    else:
        ops.append({"op": "idle", "n": rng.randint(1, 100)})


def _reset_op(rng, suspended=False):
    """ A bus-reset attempt: SE0 of a short / marginal / long duration, or a VBUS loss. """
    kind = "se0" if suspended else rng.choice(["se0", "se0", "se0", "vbus"])
    r = rng.random()
    if kind == "se0" and r < 0.35:
        n = rng.randint(LONG_SE0 + 100, LONG_SE0 + 1500)          # a bus reset by the line-state history alone
    elif r < 0.85:
        n = rng.randint(RESET_CYCLES + 10, RESET_CYCLES + 120)    # marginal: the device decides
    else:
        n = rng.randint(20, RESET_CYCLES - 40)                    # (mostly) too short to be a reset
    return {"op": "reset", "kind": kind, "n": n}


def _suspend_slot(tier, index):
    """ the stratum number of a suspend run, or None """
    stride = SUSPEND_STRIDE.get(tier, 300)
    if index % stride != SUSPEND_PHASE or index // stride >= SUSPEND_COUNT.get(tier, 1 << 30):
        return None
    return index // stride


def gen(rng, tier, index):
    cfg = {
        "variant": rng.choice(["V1", "V2"]),
        "byte_period": rng.choice([1, 1, 2, 3]),
        "pre": rng.choice([1, 1, 2]),
        "post": rng.choice([0, 0, 1]),
        "txready": rng.choice(["always", "always", "always", ["every", 2], ["every", 3]]),
        "tok_gap": rng.choice([1, 2, 3, 6]),
        "turn": rng.choice([1, 2, 3, 5, 9]),
        "rest": rng.choice([2, 4, 8, 20]),
    }
    # speed capability: V1 is full-speed only by construction; V2 is high-speed capable unless full_speed_only is driven
    cfg["fs_only"] = 0 if (cfg["variant"] == "V2" and rng.random() < 0.35) else 1
    slot = _suspend_slot(tier, index)
    if slot is not None:
        return _gen_suspend(rng, tier, cfg, slot)
    hs_capable = cfg["variant"] == "V2" and not cfg["fs_only"]
    fault_free = rng.random() < 0.15
    ops = []
    n_episodes = rng.randint(2, 6 if tier == "quick" else 10)
    for _ in range(n_episodes):
        _episode(rng, ops, fault_free)
    terminal = False
    if not fault_free:
        # bus resets at arbitrary points (also between setup and status stage)
        for _ in range(rng.choice([0, 0, 1, 1, 2])):
            at = rng.randint(0, len(ops))
            ops.insert(at, _reset_op(rng))
            if hs_capable:
                # the device answers a reset with the high-speed detection handshake (not simulated): the run ends here
                del ops[at + 1:]
                terminal = True
                break
    if not terminal:
        # finish with a clean read-back and a probe
        ops.append({"op": "in", "ep": 1, "addr": "cur", "ack": True})
    cfg["idle_data"] = gen_idle_data(rng)
    return {"engine": ENGINE, "config": cfg, "ops": ops}


def _gen_suspend(rng, tier, cfg, slot):
    """ One of the few expensive runs in which the bus idles > 3 ms.  Stratified over
        (timing variant / speed capability) x (what ends the suspend) so that every tier run covers the grid. """
    klass, end = SUSPEND_GRID[slot % len(SUSPEND_GRID)]
    cfg["variant"] = "V1" if klass == "V1" else "V2"
    cfg["fs_only"] = 0 if klass == "V2hs" else 1
    hs_capable = klass == "V2hs"
    ops = []
    _episode(rng, ops, False, clean_set=True)                         # the device leaves the default state ...
    for _ in range(rng.randint(0, 2)):
        _episode(rng, ops, False)                                     # ... and may have a request pending when the bus goes quiet
    ops.append({"op": "suspend", "n": SUSPEND_CYCLES + rng.randint(10, 4000)})
    if rng.random() < 0.25:
        # a glitch far below every detection threshold; the bus returns to idle, the device stays suspended
        ops.append({"op": "reset", "kind": "se0", "n": rng.randint(2, GLITCH_MAX)})
        ops.append({"op": "idle", "n": rng.randint(1, 300)})
    if end == "other":
        end = rng.choice(["resume", "marginal_reset", "marginal_reset"])
    if end == "long_reset":
        ops.append({"op": "reset", "kind": "se0", "n": rng.randint(LONG_SE0 + 100, LONG_SE0 + 1500)})
    elif end == "marginal_reset":
        # above the suspended-state threshold (2.5 us), below LONG_SE0: the device's report decides
        ops.append({"op": "reset", "kind": "se0", "n": rng.randint(RESET_CYCLES // 2 + 10, LONG_SE0 - 100)})
    else:
        ops.append({"op": "resume", "n": rng.randint(50, 2000)})
    if hs_capable and end != "resume":
        cfg["idle_data"] = gen_idle_data(rng)
        return {"engine": ENGINE, "config": cfg, "ops": ops}          # high-speed detection follows: end of the run
    # life goes on: new requests (after a reset: from address 0), probes at the previous address, more resets
    for _ in range(rng.randint(1, 3)):
        _episode(rng, ops, False)
    if rng.random() < 0.5:
        ops.append(_reset_op(rng))
        if hs_capable:
            cfg["idle_data"] = gen_idle_data(rng)
            return {"engine": ENGINE, "config": cfg, "ops": ops}
        _episode(rng, ops, False)
    ops.append({"op": "in", "ep": 1, "addr": "cur", "ack": True})
    cfg["idle_data"] = gen_idle_data(rng)
    return {"engine": ENGINE, "config": cfg, "ops": ops}


# ------------------------------------------------------------------------------------------------
class _Model:
    """ What the statement says the device state is, driven by the host's own actions. """

    def __init__(self):
        self.addr = 0
        self.cfg = 0
        self.prev_addr = 0
        self.pending = None        # {"req": "addr"|"cfg", "value": masked value, "zlp_unacked": bool}
        self.stale = "none"        # kind of the most recent SET request that was abandoned / wiped without completing
        self.last_event = "none"

    def pend_name(self):
        return {"addr": "SET_ADDRESS", "cfg": "SET_CONFIGURATION"}.get((self.pending or {}).get("req"), "none")


class _Monitor:
    """ Per-cycle comparison of the spy registers with the model. """

    PINS = (("address", "spy_address"), ("config", "spy_config"))

    def __init__(self, viol, model, variant):
        self.viol = viol
        self.m = model
        self.variant = variant
        self.exp = {"address": 0, "config": 0}
        self.win = {}              # reg -> [new, deadline or None, why]
        self.resets = 0            # cycles with reset_detected seen
        self.reset_edges = 0
        self._prev_reset = 0
        self.dead = False
        self.se0_last = -1
        self.se0_since = None      # first cycle of the SE0 the host is currently holding on the line (input history)
        self.se0_note = {}         # context of that SE0 for messages / shapes
        self.input_resets = 0      # SE0 periods that reached LONG_SE0 cycles
        self.suspended_now = 0     # the device's own `suspended` output (coverage / messages only)

    def se0(self, first, last, **note):
        """ the host drives SE0 on the line in the cycles first..last """
        self.se0_since = first
        self.se0_last = last
        self.se0_note = dict(note, edges_before=self.reset_edges)

    def open(self, reg, new, why):
        if self.exp[reg] == new:
            return
        self.win[reg] = [new, None, why]

    def close_at(self, reg, deadline):
        if reg in self.win:
            self.win[reg][1] = deadline

    def shape(self, reg, got):
        """ deliberately coarse (timing variant and values are in the message) """
        m = self.m
        return {"reg": reg, "last_event": m.last_event, "pending": m.pend_name(),
                "abandoned_earlier": m.stale if m.pending is None or m.last_event == "status_ack" else "n/a"}

    def observe(self, t, o):
        if self.dead:
            return True
        self.suspended_now = o["suspended"]
        if self.se0_since is not None and t <= self.se0_last and t - self.se0_since + 1 == LONG_SE0:
            # The line has been at SE0 for LONG_SE0 consecutive cycles: a bus reset by the input history alone.
            self.input_resets += 1
            note = self.se0_note
            reported = self.reset_edges > note.get("edges_before", 0)
            left = {reg: o[pin] for reg, pin in self.PINS if o[pin] != 0}
            if left:
                # (shape: the circumstances of the reset, not the register / request history -- one class per cause)
                self.viol.add("C08.reset_clears", t,
                              f"[{self.variant}] {left} not cleared although the host has held SE0 for {LONG_SE0} cycles "
                              f"(a bus reset; SE0 began at cycle {self.se0_since}, device suspended at that time: "
                              f"{note.get('suspended')}, high-speed capable: {note.get('hs_capable')}, reset_detected "
                              f"{'was' if reported else 'was NOT'} pulsed during it); expected address 0, config 0",
                              kind="not_cleared_by_long_se0", suspended=bool(note.get("suspended")),
                              hs_capable=bool(note.get("hs_capable")), reset_reported=bool(reported))
                self.dead = True
                return True
            for reg, _ in self.PINS:
                self.exp[reg] = 0
                self.win.pop(reg, None)
        if o["reset_detected"]:
            self.resets += 1
            if not self._prev_reset:
                self.reset_edges += 1
            for reg, _ in self.PINS:
                w = self.win.get(reg)
                if w is None or w[2] != "reset":
                    self.win[reg] = [0, t + SLACK, "reset"]
        self._prev_reset = o["reset_detected"]
        for reg, pin in self.PINS:
            v = o[pin]
            w = self.win.get(reg)
            old = self.exp[reg]
            if w is not None:
                new, deadline, why = w
                if v == new:
                    self.exp[reg] = new
                    del self.win[reg]
                    continue
                if v == old:
                    if deadline is not None and t > deadline:
                        rule = "C08.reset_clears" if why == "reset" else "C08.commit_point"
                        self.viol.add(rule, t, f"[{self.variant}] {reg} still {old} {SLACK} cycles after {why}; expected {new}",
                                      **self.shape(reg, v), kind="not_applied")
                        self.dead = True
                    continue
                rule = "C08.reset_clears" if why == "reset" else "C08.value"
                self.viol.add(rule, t, f"[{self.variant}] {reg} became {v} after {why}; expected {new} (was {old})", **self.shape(reg, v),
                              kind="wrong_value")
                self.dead = True
                continue
            if v != old:
                m = self.m
                p = m.pending
                preg = {"addr": "address", "cfg": "config"}.get((p or {}).get("req"))
                if m.last_event in ("other_ep_ack", "other_device_ack") and p is not None and preg == reg and v == p["value"]:
                    rule = "C08.other_ep_ack_no_commit"
                elif m.stale != "none" and m.last_event != "status_ack":
                    rule = "C08.abandoned_no_effect"
                else:
                    rule = "C08.commit_point"
                self.viol.add(rule, t, f"[{self.variant}] {reg} changed {old} -> {v} although no status stage of a request for it was acknowledged "
                              f"(last host event: {m.last_event}; pending request: {m.pend_name()} {p}; earlier abandoned: {m.stale})",
                              **self.shape(reg, v), kind="unsolicited_change")
                self.dead = True
        return self.dead


def run(scn):
    cfg = scn["config"]
    variant = cfg["variant"]
    bench = device_bench(DEV_CFG[variant])
    init = dict(IDLE_INIT)
    fs_only = int(cfg.get("fs_only", 1))
    init["full_speed_only"] = fs_only
    hs_capable = variant == "V2" and not fs_only      # V1 is built full-speed only (always_fs)
    viol = Violations()
    probes = {p: 0 for p in PROBES}
    faults = {}
    model = _Model()
    mon = _Monitor(viol, model, variant)
    ops = scn["ops"]
    outcomes = set()
    state = {"suspended": False, "after_suspend": False}      # host-side knowledge: > 3 ms idle not yet ended by reset / resume

    def fault(kind):
        faults[kind] = faults.get(kind, 0) + 1

    def resolve(a):
        if a == "cur":
            return model.addr
        if a == "prev":
            return model.prev_addr
        if a == "pend":
            p = model.pending
            if p is not None and p["req"] == "addr":
                return p["value"]
            return (model.addr + 1) & 0x7F
        return int(a) & 0x7F

    def bb_shape(what, ep):
        return {"reg": "address", "pending": model.pend_name(),
                "abandoned_earlier": model.stale if model.pending is None else "n/a", "got": what, "ep": ep}

    def check_presence(t, A, ep, r, must_answer):
        """ black-box: answered iff the token carried the address in effect """
        inflight = model.pending is not None and model.pending["req"] == "addr"
        rule = "C08.old_address_until_commit" if inflight else "C08.address_in_effect"
        if A != model.addr:
            if r["kind"] != "NONE":
                viol.add(rule, r["start"], f"device answered {r['kind']} to IN ep{ep} at address {A} while its address is {model.addr} "
                         f"(pending {model.pending}, last event {model.last_event}) [{variant}]", **bb_shape("answered_wrong_address", ep), kind="probe")
                mon.dead = True
        elif must_answer and r["kind"] == "NONE":
            viol.add(rule, t, f"device did not answer IN ep{ep} at its address {A} (pending {model.pending}, last event "
                     f"{model.last_event}) [{variant}]", **bb_shape("silent_at_own_address", ep), kind="probe")
            mon.dead = True

    def script(h):
        x = Txn(h, variant, tok_gap=cfg["tok_gap"], turn=cfg["turn"], rest=cfg["rest"])
        yield from h.idle(4)
        for op in ops:
            if mon.dead:
                return
            kind = op["op"]
            if state["suspended"] and kind not in ("reset", "resume", "idle", "suspend"):
                continue                           # the host sends nothing to a suspended device (e.g. after shrinking)
            if state["after_suspend"] and kind in ("set", "status", "in", "get_config"):
                probes["traffic_after_suspend"] += 1
                state["after_suspend"] = False
            if kind == "idle":
                yield from h.idle(op["n"])
            elif kind == "sof":
                yield from h.send(usb2.sof_packet(op["frame"]), info="sof")
                yield from h.idle(cfg["rest"])
            elif kind == "suspend":
                # the bus stays idle (J) for > 3 ms: the device is suspended afterwards (its `suspended` output is only counted)
                yield from h.idle(op["n"])
                model.last_event = "suspend"
                outcomes.add("suspend")
                state["suspended"] = True
                if mon.suspended_now:
                    probes["suspended_reached"] += 1
            elif kind == "resume":
                # time-compressed resume signalling: K, a low-speed EOP (SE0 for two low-speed bit times), back to J
                was = mon.suspended_now
                h.set_pins(line_state=LINE_K)
                yield from h.idle(op["n"])
                h.set_pins(line_state=0)
                yield from h.idle(max(2, int(round(1.33e-6 * CLOCKS[variant]))))
                h.set_pins(line_state=h.line_idle)
                yield from h.idle(cfg["rest"] + 4)
                model.last_event = "resume"
                outcomes.add("resume")
                state["suspended"] = False
                if was:
                    probes["resume_from_suspend"] += 1
                    state["after_suspend"] = True
            elif kind == "reset":
                before = mon.reset_edges
                had_pending = model.pending is not None
                is_se0 = op["kind"] == "se0"
                is_long = is_se0 and op["n"] >= LONG_SE0
                was_suspended = mon.suspended_now
                nonzero = bool(model.addr or model.cfg)
                if is_se0:
                    mon.se0(h.t + 1, h.t + op["n"], suspended=bool(was_suspended), hs_capable=hs_capable)
                yield from x.bus_reset(op["n"], "se0" if is_se0 else "vbus")
                yield from h.idle(SLACK + 2)
                if mon.dead:
                    return
                reported = mon.reset_edges > before
                if reported or is_long:
                    fault("bus_reset" if is_se0 else "vbus_loss")
                    if had_pending:
                        probes["reset_while_pending"] += 1
                        model.stale = model.pend_name()
                    if is_long:
                        probes["long_se0_reset"] += 1
                        probes["long_se0_reset_nonzero_state"] += nonzero
                    if hs_capable:
                        probes["reset_hs_capable"] += 1
                    if was_suspended:
                        probes["reset_while_suspended"] += 1
                        probes["reset_while_suspended_hs_capable"] += hs_capable
                        probes["reset_while_suspended_nonzero_state"] += nonzero
                        state["after_suspend"] = True
                    state["suspended"] = False
                    model.prev_addr = model.addr
                    model.addr, model.cfg, model.pending = 0, 0, None
                    model.last_event = "reset"
                    outcomes.add("reset_suspended" if was_suspended else "reset")
                    outcomes.add("reset")
                else:
                    outcomes.add("short_se0")
                if hs_capable and (reported or op["n"] > GLITCH_MAX):
                    # a high-speed capable device is now (or may be) in its high-speed detection handshake, during which the
                    # host must not send packets; the handshake is outside this check: the run ends here.  (SE0 of at most
                    # GLITCH_MAX cycles is below every detection threshold: no reset handling may start, the run goes on.)
                    outcomes.add("hs_detection_follows")
                    break
            elif kind == "set":
                req = op["req"]
                raw = op["value"] & 0xFFFF
                data = setup_bytes(0x00, 5 if req == "addr" else 9, raw, 0, 0)
                A = model.addr
                if model.pending is not None:
                    fault("abandon_transfer")
                    probes["abandoned_request"] += 1
                    model.stale = model.pend_name()
                if req == "addr" and raw > 127:
                    probes["addr_value_gt_127"] += 1
                r = yield from x.setup(A, 0, data)
                if r["kind"] != "ACK":
                    viol.add("C08.address_in_effect", h.t, f"SETUP at the device's address {A} answered {r['kind']} (expected ACK)",
                             **bb_shape("setup_not_acked", 0), kind="probe")
                    mon.dead = True
                    return
                model.pending = {"req": req, "value": raw & (0x7F if req == "addr" else 0xFF), "zlp_unacked": False}
                model.last_event = "setup"
            elif kind == "status":
                p = model.pending
                if p is None:
                    continue                       # nothing to complete (e.g. after shrinking): skip
                A = model.addr
                r = yield from x.in_(A, 0)
                # "keeps responding at its old address" is only asserted for the request that changes the address
                check_presence(h.t, A, 0, r, must_answer=(p["req"] == "addr"))
                if mon.dead:
                    return
                if not (is_data(r) and r["payload"] == b""):
                    outcomes.add("status_" + r["kind"])
                    model.last_event = "status_not_zlp"
                    if is_data(r):
                        yield from h.idle(cfg["rest"])
                    continue
                if p["zlp_unacked"]:
                    probes["status_retry_after_lost_ack"] += 1
                if not op["ack"]:
                    fault("lost_handshake")
                    p["zlp_unacked"] = True
                    model.last_event = "status_zlp_unacked"
                    yield from h.idle(cfg["rest"] + cfg["turn"])
                    continue
                reg = "address" if p["req"] == "addr" else "config"
                yield from h.idle(cfg["turn"])
                mon.open(reg, p["value"], f"the ACK of the status stage of {model.pend_name()}({p['value']})")
                model.last_event = "status_ack"
                _, t_end = yield from h.send(usb2.handshake_packet("ACK"), info="host_ack")
                mon.close_at(reg, t_end + SLACK)
                if p["req"] == "addr":
                    model.prev_addr = model.addr
                    model.addr = p["value"]
                    probes["commit_address"] += 1
                else:
                    model.cfg = p["value"]
                    probes["commit_config"] += 1
                model.pending = None
                outcomes.add("commit_" + p["req"])
                yield from h.idle(SLACK + 4 + cfg["rest"])
            elif kind == "in":
                A = resolve(op["addr"])
                ep = op["ep"]
                p = model.pending
                if ep == 0 and A == model.addr:
                    continue                       # would be a status stage: only the "status" op does that
                if A != model.addr:
                    fault("foreign_address")
                    if p is not None and p["req"] == "addr" and A == p["value"]:
                        probes["probe_new_addr_before_commit"] += 1
                    if A == model.prev_addr and p is None:
                        probes["probe_old_addr_after_commit"] += 1
                r = yield from x.in_(A, ep)
                check_presence(h.t, A, ep, r, must_answer=(ep in DATA_EPS))
                if mon.dead:
                    return
                if r["kind"] == "NONE" and A != model.addr and op["ack"] and op.get("foreign_data_cycles"):
                    # the other device's data packet is on the upstream path only; then the host acknowledges it
                    yield from h.idle(op["foreign_data_cycles"])
                    if p is not None:
                        fault("interleave_other_device")
                        probes["other_device_ack_while_pending"] += 1
                        if p["zlp_unacked"]:
                            probes["other_device_ack_after_unacked_zlp"] += 1
                    model.last_event = "other_device_ack"
                    yield from x.handshake("ACK")
                    yield from h.idle(4)
                    continue
                if is_data(r):
                    if op["ack"]:
                        if p is not None:
                            fault("interleave_other_ep")
                            probes["other_ep_ack_while_pending"] += 1
                            if ep % 2 == 0:
                                probes["other_ep_even_number_ack_while_pending"] += 1
                            if p["zlp_unacked"]:
                                probes["other_ep_ack_after_unacked_zlp"] += 1
                        model.last_event = "other_ep_ack"
                        yield from x.handshake("ACK")
                        yield from h.idle(4)
                    else:
                        model.last_event = "other_ep_noack"
                        yield from h.idle(cfg["rest"] + cfg["turn"])
                    outcomes.add("ep1_data")
                elif A != model.addr:
                    model.last_event = "probe_silent"
            elif kind == "get_config":
                if model.pending is not None:
                    fault("abandon_transfer")
                    probes["abandoned_request"] += 1
                    model.stale = model.pend_name()
                A = model.addr
                r = yield from x.setup(A, 0, setup_bytes(0x80, 8, 0, 0, 1))
                model.pending = None
                model.last_event = "get_config"
                if r["kind"] != "ACK":
                    viol.add("C08.address_in_effect", h.t, f"SETUP at the device's address {A} answered {r['kind']} (expected ACK)",
                             **bb_shape("setup_not_acked", 0), kind="probe")
                    mon.dead = True
                    return
                r = yield from x.in_(A, 0)
                if is_data(r):
                    if len(r["payload"]) >= 1:
                        probes["get_config_readback"] += 1
                        if r["payload"] != bytes([model.cfg]):
                            viol.add("C08.value", r["start"], f"GET_CONFIGURATION returned {r['payload'].hex()} while the configuration "
                                     f"in effect is {model.cfg} [{variant}]", reg="config", last_event=model.last_event,
                                     pending="none", abandoned_earlier=model.stale, got="readback", kind="readback")
                            mon.dead = True
                            return
                    yield from x.handshake("ACK")
                    r2 = yield from x.out(A, 0, "DATA1", b"")
                    outcomes.add("get_config_" + r2["kind"])
                else:
                    outcomes.add("get_config_nodata_" + r["kind"])
            else:
                raise ValueError(kind)
        yield from h.idle(SLACK + 4)

    host = UTMIHost(script, idle_data=cfg.get("idle_data"), byte_period=cfg["byte_period"], pre=cfg["pre"], post=cfg["post"],
                    txready=(cfg["txready"] if cfg["txready"] == "always" else tuple(cfg["txready"])))
    feeder = StreamFeeder("in1_", seed=len(ops))
    feeder2 = StreamFeeder("in2_", seed=len(ops) + 77)
    per_op = 16 * (cfg["byte_period"] + 1) * 4 + 8 * 100 + 4 * cfg["rest"] + 60
    max_cycles = 400 + sum(per_op + op.get("n", 0) for op in ops)
    log = bench.run([host, feeder, feeder2, mon], max_cycles, init=init)
    if not host._done and not viol:
        raise RuntimeError("host script did not finish within the cycle cap")

    sig = hashlib.blake2b(repr((variant, sorted(log.fsm_vectors), sorted(faults), sorted(outcomes))).encode(),
                          digest_size=8).hexdigest()
    nontrivial = bool(faults) and (probes["commit_address"] + probes["commit_config"] > 0 or "reset" in outcomes)
    return {"violations": viol.items, "cycles": log.cycles, "faults": faults, "probes": probes, "sig": sig,
            "nontrivial": nontrivial, "digest": log.digest, "fsm": len(log.fsm_vectors)}
