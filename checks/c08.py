"""
C08 -- device address and configuration change only when their request completes.

DUT: the complete USBDevice (V1 12 MHz / V2 60 MHz timing) with the standard control endpoint, a bulk IN endpoint
(EP1, always has data) and the passive spy endpoint that shows `active_address` / `active_config`.

The host actor plays SET_ADDRESS / SET_CONFIGURATION control transfers with: IN transfers on EP1 (data + host ACK)
between the setup stage and the status stage, lost status-stage handshakes (status IN re-issued), abandoned requests,
probe tokens at the old / new / previous address, bus resets (SE0 >= 5 us, or VBUS loss) at arbitrary points and
GET_CONFIGURATION read-backs.  A spec-level model (address, configuration, pending request) is advanced by the host's
own actions only; the spy registers are compared with it every cycle, the probe tokens compare it black-box.
"""

import hashlib

from dsim.kernel import Violations
from models import usb2
from models.usb2 import UTMIHost
from models.usb2_ctrl import Txn, StreamFeeder, setup_bytes, is_data
from engines.usb2_device import device_bench, IDLE_INIT

PROPERTY = "C08"
ENGINE = "usb2_device"
CLOCK_HZ = 60e6
RULES = {
    "C08.commit_point": "address/configuration change exactly once and only at the host's ACK of the status-stage ZLP of the "
                        "SET_ADDRESS/SET_CONFIGURATION request that carries them (not earlier, not later, not without it)",
    "C08.value": "the committed value is wValue[6:0] (address) / wValue[7:0] (configuration) of that request; "
                 "GET_CONFIGURATION returns the configuration in effect",
    "C08.other_ep_ack_no_commit": "the host's ACK of another endpoint's IN data never commits a pending request",
    "C08.abandoned_no_effect": "a request that was abandoned (superseded by a newer SETUP, or wiped by a bus reset) before its "
                               "status stage was acknowledged never takes effect later",
    "C08.old_address_until_commit": "while a SET_ADDRESS is in flight tokens at the old address are answered and tokens at the "
                                    "new address are not",
    "C08.address_in_effect": "tokens are answered iff they carry the address in effect (black-box probe tokens)",
    "C08.reset_clears": "after a reported bus reset address and configuration are 0",
}
PROBES = ["other_ep_ack_while_pending", "status_retry_after_lost_ack", "reset_while_pending", "addr_value_gt_127",
          "probe_new_addr_before_commit", "probe_old_addr_after_commit", "commit_address", "commit_config",
          "abandoned_request", "other_ep_ack_after_unacked_zlp", "get_config_readback"]
META = {
    "components_real": ["USBDevice", "USBControlEndpoint", "StandardRequestHandler", "USBRequestHandlerMultiplexer",
                        "USBSetupDecoder", "USBTokenDetector", "USBHandshakeDetector", "USBHandshakeGenerator",
                        "USBDataPacketGenerator", "USBEndpointMultiplexer", "USBResetSequencer", "USBStreamInEndpoint",
                        "GetDescriptorHandlerBlock"],
    "components_stubbed": ["UTMI PHY + host (models.usb2.UTMIHost, models.usb2_ctrl.Txn)", "EP1 stream producer",
                           "passive spy endpoint / spy request handler (observation only)"],
    "assumptions": ["legal UTMI receive side; the host never transmits while the device transmits",
                    "the host idles >= 12 cycles after the ACK of a status stage (the change may take up to 8 cycles)",
                    "SET_ADDRESS/SET_CONFIGURATION are sent well-formed (bmRequestType 0x00, wIndex 0, wLength 0)",
                    "a bus reset is what the device reports on reset_detected (SE0 >= 5 us or VBUS loss); no traffic during it",
                    "after a bus reset the host starts with a new SETUP before it issues an EP0 IN token"],
    "rule": "6-30 host operations: SET_ADDRESS/SET_CONFIGURATION setup stages, status IN tokens with/without host ACK, EP1 IN "
            "transfers with/without ACK, probe tokens at current/pending/previous/foreign addresses, GET_CONFIGURATION, SOFs, bus "
            "resets; timing variant, byte period, turnaround and gaps per run; ~15 % of the runs fault-free",
}
TIERS = {"quick": {"runs": 2000, "wall": 90}, "thorough": {"runs": 36000, "wall": 900}}

DEV_CFG = {v: {"variant": v, "ep0_mps": 64, "endpoints": [{"kind": "stream_in", "ep": 1, "mps": 8}]} for v in ("V1", "V2")}
SLACK = 8
RESET_CYCLES = 300            # 5 us at the sequencer's 60 MHz constants


# ------------------------------------------------------------------------------------------------
def _value(rng, req):
    if req == "addr":
        r = rng.random()
        if r < 0.55:
            return rng.randint(1, 127)
        if r < 0.80:
            return rng.getrandbits(16) | 0x80          # > 127: only the low 7 bits count
        if r < 0.9:
            return 0
        return rng.choice([1, 2, 64, 127, 128, 255, 0x7F00, 0xFFFF])
    r = rng.random()
    if r < 0.6:
        return rng.randint(0, 255)
    if r < 0.85:
        return rng.getrandbits(16)
    return rng.choice([0, 1, 2, 255, 256, 0x100 | 1])


def _between(rng, ops, fault_free):
    """ traffic placed between the stages of a request """
    n = rng.choice([0, 0, 1, 1, 2, 3])
    if fault_free:
        n = 0
    for _ in range(n):
        r = rng.random()
        if r < 0.45:
            ops.append({"op": "in", "ep": 1, "addr": "cur", "ack": True})
        elif r < 0.55:
            ops.append({"op": "in", "ep": 1, "addr": "cur", "ack": False})
        elif r < 0.70:
            ops.append({"op": "in", "ep": rng.choice([0, 1]), "addr": "pend", "ack": True})
        elif r < 0.78:
            ops.append({"op": "in", "ep": 1, "addr": rng.randint(0, 127), "ack": True})
        elif r < 0.88:
            ops.append({"op": "sof", "frame": rng.getrandbits(11)})
        else:
            ops.append({"op": "idle", "n": rng.randint(1, 80)})


def gen(rng, tier, index):
    cfg = {
        "variant": rng.choice(["V1", "V2"]),
        "byte_period": rng.choice([1, 1, 2, 3]),
        "pre": rng.choice([1, 1, 2]),
        "post": rng.choice([0, 0, 1]),
        "txready": rng.choice(["always", "always", "always", ["every", 2], ["every", 3]]),
        "tok_gap": rng.choice([1, 2, 3, 6]),
        "turn": rng.choice([1, 2, 3, 5, 9]),
        "rest": rng.choice([2, 4, 8, 20]),
    }
    fault_free = rng.random() < 0.15
    ops = []
    n_episodes = rng.randint(2, 6 if tier == "quick" else 10)
    for _ in range(n_episodes):
        r = rng.random()
        if r < 0.72:
            req = rng.choice(["addr", "addr", "cfg"])
            ops.append({"op": "set", "req": req, "value": _value(rng, req)})
            _between(rng, ops, fault_free)
            q = rng.random()
            if fault_free or q < 0.62:
                ops.append({"op": "status", "ack": True})
            elif q < 0.85:
                ops.append({"op": "status", "ack": False})            # lost handshake
                _between(rng, ops, fault_free)
                if rng.random() < 0.8:
                    ops.append({"op": "status", "ack": True})         # the host re-issues the status IN
            # else: abandoned before the status stage
            if rng.random() < 0.7:
                ops.append({"op": "in", "ep": 1, "addr": rng.choice(["cur", "cur", "prev", "prev"]), "ack": rng.random() < 0.8})
        elif r < 0.82:
            ops.append({"op": "get_config"})
        elif r < 0.92:
            ops.append({"op": "in", "ep": 1, "addr": rng.choice(["cur", "prev", rng.randint(0, 127)]), "ack": rng.random() < 0.8})
        else:
            ops.append({"op": "idle", "n": rng.randint(1, 100)})
    if not fault_free:
        # bus resets at arbitrary points (also between setup and status stage)
        for _ in range(rng.choice([0, 0, 1, 1, 2])):
            kind = rng.choice(["se0", "se0", "se0", "vbus"])
            n = rng.randint(RESET_CYCLES + 10, RESET_CYCLES + 120) if rng.random() < 0.8 else rng.randint(20, RESET_CYCLES - 40)
            ops.insert(rng.randint(0, len(ops)), {"op": "reset", "kind": kind, "n": n})
    # finish with a clean read-back and a probe
    ops.append({"op": "in", "ep": 1, "addr": "cur", "ack": True})
    return {"engine": ENGINE, "config": cfg, "ops": ops}


# ------------------------------------------------------------------------------------------------
class _Model:
    """ What the statement says the device state is, driven by the host's own actions. """

    def __init__(self):
        self.addr = 0
        self.cfg = 0
        self.prev_addr = 0
        self.pending = None        # {"req": "addr"|"cfg", "value": masked value, "zlp_unacked": bool}
        self.stale = "none"        # kind of the most recent SET request that was abandoned / wiped without completing
        self.last_event = "none"

    def pend_name(self):
        return {"addr": "SET_ADDRESS", "cfg": "SET_CONFIGURATION"}.get((self.pending or {}).get("req"), "none")


class _Monitor:
    """ Per-cycle comparison of the spy registers with the model. """

    PINS = (("address", "spy_address"), ("config", "spy_config"))

    def __init__(self, viol, model, variant):
        self.viol = viol
        self.m = model
        self.variant = variant
        self.exp = {"address": 0, "config": 0}
        self.win = {}              # reg -> [new, deadline or None, why]
        self.resets = 0            # cycles with reset_detected seen
        self.reset_edges = 0
        self._prev_reset = 0
        self.dead = False

    def open(self, reg, new, why):
        if self.exp[reg] == new:
            return
        self.win[reg] = [new, None, why]

    def close_at(self, reg, deadline):
        if reg in self.win:
            self.win[reg][1] = deadline

    def shape(self, reg, got):
        """ deliberately coarse (timing variant and values are in the message) """
        m = self.m
        return {"reg": reg, "last_event": m.last_event, "pending": m.pend_name(),
                "abandoned_earlier": m.stale if m.pending is None or m.last_event == "status_ack" else "n/a"}

    def observe(self, t, o):
        if self.dead:
            return True
        if o["reset_detected"]:
            self.resets += 1
            if not self._prev_reset:
                self.reset_edges += 1
            for reg, _ in self.PINS:
                w = self.win.get(reg)
                if w is None or w[2] != "reset":
                    self.win[reg] = [0, t + SLACK, "reset"]
        self._prev_reset = o["reset_detected"]
        for reg, pin in self.PINS:
            v = o[pin]
            w = self.win.get(reg)
            old = self.exp[reg]
            if w is not None:
                new, deadline, why = w
                if v == new:
                    self.exp[reg] = new
                    del self.win[reg]
                    continue
                if v == old:
                    if deadline is not None and t > deadline:
                        rule = "C08.reset_clears" if why == "reset" else "C08.commit_point"
                        self.viol.add(rule, t, f"[{self.variant}] {reg} still {old} {SLACK} cycles after {why}; expected {new}",
                                      **self.shape(reg, v), kind="not_applied")
                        self.dead = True
                    continue
                rule = "C08.reset_clears" if why == "reset" else "C08.value"
                self.viol.add(rule, t, f"[{self.variant}] {reg} became {v} after {why}; expected {new} (was {old})", **self.shape(reg, v),
                              kind="wrong_value")
                self.dead = True
                continue
            if v != old:
                m = self.m
                p = m.pending
                preg = {"addr": "address", "cfg": "config"}.get((p or {}).get("req"))
                if m.last_event == "other_ep_ack" and p is not None and preg == reg and v == p["value"]:
                    rule = "C08.other_ep_ack_no_commit"
                elif m.stale != "none" and m.last_event != "status_ack":
                    rule = "C08.abandoned_no_effect"
                else:
                    rule = "C08.commit_point"
                self.viol.add(rule, t, f"[{self.variant}] {reg} changed {old} -> {v} although no status stage of a request for it was acknowledged "
                              f"(last host event: {m.last_event}; pending request: {m.pend_name()} {p}; earlier abandoned: {m.stale})",
                              **self.shape(reg, v), kind="unsolicited_change")
                self.dead = True
        return self.dead


def run(scn):
    cfg = scn["config"]
    variant = cfg["variant"]
    bench = device_bench(DEV_CFG[variant])
    init = dict(IDLE_INIT)
    init["full_speed_only"] = 1
    viol = Violations()
    probes = {p: 0 for p in PROBES}
    faults = {}
    model = _Model()
    mon = _Monitor(viol, model, variant)
    ops = scn["ops"]
    outcomes = set()

    def fault(kind):
        faults[kind] = faults.get(kind, 0) + 1

    def resolve(a):
        if a == "cur":
            return model.addr
        if a == "prev":
            return model.prev_addr
        if a == "pend":
            p = model.pending
            if p is not None and p["req"] == "addr":
                return p["value"]
            return (model.addr + 1) & 0x7F
        return int(a) & 0x7F

    def bb_shape(what, ep):
        return {"reg": "address", "pending": model.pend_name(),
                "abandoned_earlier": model.stale if model.pending is None else "n/a", "got": what, "ep": ep}

    def check_presence(t, A, ep, r, must_answer):
        """ black-box: answered iff the token carried the address in effect """
        inflight = model.pending is not None and model.pending["req"] == "addr"
        rule = "C08.old_address_until_commit" if inflight else "C08.address_in_effect"
        if A != model.addr:
            if r["kind"] != "NONE":
                viol.add(rule, r["start"], f"device answered {r['kind']} to IN ep{ep} at address {A} while its address is {model.addr} "
                         f"(pending {model.pending}, last event {model.last_event}) [{variant}]", **bb_shape("answered_wrong_address", ep), kind="probe")
                mon.dead = True
        elif must_answer and r["kind"] == "NONE":
            viol.add(rule, t, f"device did not answer IN ep{ep} at its address {A} (pending {model.pending}, last event "
                     f"{model.last_event}) [{variant}]", **bb_shape("silent_at_own_address", ep), kind="probe")
            mon.dead = True

    def script(h):
        x = Txn(h, variant, tok_gap=cfg["tok_gap"], turn=cfg["turn"], rest=cfg["rest"])
        yield from h.idle(4)
        for op in ops:
            if mon.dead:
                return
            kind = op["op"]
            if kind == "idle":
                yield from h.idle(op["n"])
            elif kind == "sof":
                yield from h.send(usb2.sof_packet(op["frame"]), info="sof")
                yield from h.idle(cfg["rest"])
            elif kind == "reset":
                before = mon.reset_edges
                had_pending = model.pending is not None
                yield from x.bus_reset(op["n"], "se0" if op["kind"] == "se0" else "vbus")
                yield from h.idle(SLACK + 2)
                if mon.reset_edges > before:
                    fault("bus_reset" if op["kind"] == "se0" else "vbus_loss")
                    if had_pending:
                        probes["reset_while_pending"] += 1
                        model.stale = model.pend_name()
                    model.prev_addr = model.addr
                    model.addr, model.cfg, model.pending = 0, 0, None
                    model.last_event = "reset"
                    outcomes.add("reset")
                else:
                    outcomes.add("short_se0")
            elif kind == "set":
                req = op["req"]
                raw = op["value"] & 0xFFFF
                data = setup_bytes(0x00, 5 if req == "addr" else 9, raw, 0, 0)
                A = model.addr
                if model.pending is not None:
                    fault("abandon_transfer")
                    probes["abandoned_request"] += 1
                    model.stale = model.pend_name()
                if req == "addr" and raw > 127:
                    probes["addr_value_gt_127"] += 1
                r = yield from x.setup(A, 0, data)
                if r["kind"] != "ACK":
                    viol.add("C08.address_in_effect", h.t, f"SETUP at the device's address {A} answered {r['kind']} (expected ACK)",
                             **bb_shape("setup_not_acked", 0), kind="probe")
                    mon.dead = True
                    return
                model.pending = {"req": req, "value": raw & (0x7F if req == "addr" else 0xFF), "zlp_unacked": False}
                model.last_event = "setup"
            elif kind == "status":
                p = model.pending
                if p is None:
                    continue                       # nothing to complete (e.g. after shrinking): skip
                A = model.addr
                r = yield from x.in_(A, 0)
                # "keeps responding at its old address" is only asserted for the request that changes the address
                check_presence(h.t, A, 0, r, must_answer=(p["req"] == "addr"))
                if mon.dead:
                    return
                if not (is_data(r) and r["payload"] == b""):
                    outcomes.add("status_" + r["kind"])
                    model.last_event = "status_not_zlp"
                    if is_data(r):
                        yield from h.idle(cfg["rest"])
                    continue
                if p["zlp_unacked"]:
                    probes["status_retry_after_lost_ack"] += 1
                if not op["ack"]:
                    fault("lost_handshake")
                    p["zlp_unacked"] = True
                    model.last_event = "status_zlp_unacked"
                    yield from h.idle(cfg["rest"] + cfg["turn"])
                    continue
                reg = "address" if p["req"] == "addr" else "config"
                yield from h.idle(cfg["turn"])
                mon.open(reg, p["value"], f"the ACK of the status stage of {model.pend_name()}({p['value']})")
                model.last_event = "status_ack"
                _, t_end = yield from h.send(usb2.handshake_packet("ACK"), info="host_ack")
                mon.close_at(reg, t_end + SLACK)
                if p["req"] == "addr":
                    model.prev_addr = model.addr
                    model.addr = p["value"]
                    probes["commit_address"] += 1
                else:
                    model.cfg = p["value"]
                    probes["commit_config"] += 1
                model.pending = None
                outcomes.add("commit_" + p["req"])
                yield from h.idle(SLACK + 4 + cfg["rest"])
            elif kind == "in":
                A = resolve(op["addr"])
                ep = op["ep"]
                p = model.pending
                if ep == 0 and A == model.addr:
                    continue                       # would be a status stage: only the "status" op does that
                if A != model.addr:
                    fault("foreign_address")
                    if p is not None and p["req"] == "addr" and A == p["value"]:
                        probes["probe_new_addr_before_commit"] += 1
                    if A == model.prev_addr and p is None:
                        probes["probe_old_addr_after_commit"] += 1
                r = yield from x.in_(A, ep)
                check_presence(h.t, A, ep, r, must_answer=(ep == 1))
                if mon.dead:
                    return
                if is_data(r):
                    if op["ack"]:
                        if p is not None:
                            fault("interleave_other_ep")
                            probes["other_ep_ack_while_pending"] += 1
                            if p["zlp_unacked"]:
                                probes["other_ep_ack_after_unacked_zlp"] += 1
                        model.last_event = "other_ep_ack"
                        yield from x.handshake("ACK")
                        yield from h.idle(4)
                    else:
                        model.last_event = "other_ep_noack"
                        yield from h.idle(cfg["rest"] + cfg["turn"])
                    outcomes.add("ep1_data")
                elif A != model.addr:
                    model.last_event = "probe_silent"
            elif kind == "get_config":
                if model.pending is not None:
                    fault("abandon_transfer")
                    probes["abandoned_request"] += 1
                    model.stale = model.pend_name()
                A = model.addr
                r = yield from x.setup(A, 0, setup_bytes(0x80, 8, 0, 0, 1))
                model.pending = None
                model.last_event = "get_config"
                if r["kind"] != "ACK":
                    viol.add("C08.address_in_effect", h.t, f"SETUP at the device's address {A} answered {r['kind']} (expected ACK)",
                             **bb_shape("setup_not_acked", 0), kind="probe")
                    mon.dead = True
                    return
                r = yield from x.in_(A, 0)
                if is_data(r):
                    if len(r["payload"]) >= 1:
                        probes["get_config_readback"] += 1
                        if r["payload"] != bytes([model.cfg]):
                            viol.add("C08.value", r["start"], f"GET_CONFIGURATION returned {r['payload'].hex()} while the configuration "
                                     f"in effect is {model.cfg} [{variant}]", reg="config", last_event=model.last_event,
                                     pending="none", abandoned_earlier=model.stale, got="readback", kind="readback")
                            mon.dead = True
                            return
                    yield from x.handshake("ACK")
                    r2 = yield from x.out(A, 0, "DATA1", b"")
                    outcomes.add("get_config_" + r2["kind"])
                else:
                    outcomes.add("get_config_nodata_" + r["kind"])
            else:
                raise ValueError(kind)
        yield from h.idle(SLACK + 4)

    host = UTMIHost(script, byte_period=cfg["byte_period"], pre=cfg["pre"], post=cfg["post"],
                    txready=(cfg["txready"] if cfg["txready"] == "always" else tuple(cfg["txready"])))
    feeder = StreamFeeder("in1_", seed=len(ops))
    per_op = 16 * (cfg["byte_period"] + 1) * 4 + 8 * 100 + 4 * cfg["rest"] + 60
    max_cycles = 400 + sum(per_op + op.get("n", 0) for op in ops)
    log = bench.run([host, feeder, mon], max_cycles, init=init)
    if not host._done and not viol:
        raise RuntimeError("host script did not finish within the cycle cap")

    sig = hashlib.blake2b(repr((variant, sorted(log.fsm_vectors), sorted(faults), sorted(outcomes))).encode(),
                          digest_size=8).hexdigest()
    nontrivial = bool(faults) and (probes["commit_address"] + probes["commit_config"] > 0 or "reset" in outcomes)
    return {"violations": viol.items, "cycles": log.cycles, "faults": faults, "probes": probes, "sig": sig,
            "nontrivial": nontrivial, "digest": log.digest, "fsm": len(log.fsm_vectors)}
