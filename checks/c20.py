"""
C20 -- everything the USB2 device transmits is a well-formed, solicited packet.

DUT: the complete USBDevice (V1 / V2 timing, full speed) with the standard control endpoint (default descriptors), a
bulk IN endpoint (ep 1), a bulk OUT endpoint (ep 2) and a status IN endpoint (ep 3); the device address is observed
through the passive spy endpoint (public add_endpoint extension point).
A *legal* host plays long histories: control transfers (enumeration requests, SET_ADDRESS / SET_CONFIGURATION, unknown
requests, abandoned transfers), bulk IN / OUT with NAK retries and duplicate OUTs, status polls, lost handshakes, SOFs,
traffic for other devices, tokens for absent endpoints and bus resets; producer / consumer / tx_ready follow literal
patterns.  No corruption (legal host).  The oracle looks only at the wire.
"""

import hashlib
import random

from dsim.kernel import Violations
from models.usb2_wire import gen_idle_data
from models import usb2
from models.usb2 import UTMIHost, token_packet, data_packet, sof_packet, handshake_packet, parse_token, parse_data
from engines.usb2_device import device_bench, IDLE_INIT

PROPERTY = "C20"
ENGINE = "usb2_device"
CLOCK_HZ = 60e6
RULES = {
    "C20.wellformed": "every device packet is a one-byte ACK/NAK/STALL/NYET with a valid PID or a DATAx packet with a correct CRC16",
    "C20.solicited": "every device packet is the single answer to the immediately preceding host packet, which is an IN/PING token "
                     "addressed to the device or the data packet of an OUT/SETUP transaction addressed to it, and it starts within "
                     "the bus timeout",
    "C20.not_during_rx": "the device never drives tx_valid while a packet is being received (rx_active high)",
}
PROBES = ["device_packets", "data_packets", "handshakes", "stalls", "naks", "answer_with_tx_stall", "after_bus_reset_answers",
          "address_changed", "token_not_for_device_silent", "lost_handshake_then_retry", "abandoned_control_transfer",
          "duplicate_out", "multi_packet_control_in", "unknown_endpoint_token", "stale_address_traffic_after_reset"]
# extra counter (only reported when non-zero, it is not a reach probe): "answer_kind_does_not_fit_request"
META = {
    "components_real": ["USBDevice", "USBControlEndpoint", "StandardRequestHandler + descriptor handler", "USBStreamInEndpoint",
                        "USBStreamOutEndpoint", "USBSignalInEndpoint", "USBDataPacketGenerator", "USBHandshakeGenerator",
                        "UTMIInterfaceMultiplexer", "USBEndpointMultiplexer", "USBResetSequencer", "USBInterpacketTimer", "USBTokenDetector"],
    "components_stubbed": ["UTMI PHY + host (models.usb2.UTMIHost)", "bulk producer / consumer with literal patterns",
                           "passive spy endpoint (observes active_address only)"],
    "assumptions": ["legal host: well-formed packets only, waits for the answer or the bus timeout (18 bit times + 4 cycles), ACKs only "
                    "data packets, never transmits while the device transmits", "legal UTMI receive side",
                    "full speed only (no chirp: 'outside reset chirping' is satisfied by configuration)",
                    "'addressed to it' = token address equals the address shown on the endpoint interface (active_address) "
                    "when the token ends; from the end of a bus reset (SE0 >= 5 us) the address is 0 until the device shows a "
                    "change after it",
                    "single-transmitter origin of a packet is checked only through its consequences on the wire (malformed / "
                    "overlapping output); the internal multiplexer inputs are not observed"],
    "rule": "12-40 host operations drawn from control / bulk_in / bulk_out / poll / sof / foreign / absent_ep / bus_reset / idle with "
            "lost handshakes, NAK retries, duplicate OUTs and abandoned control transfers; tx_ready, producer and consumer patterns "
            "per run; endpoint sizes and variant fixed per group of 8 scenario indices",
}
TIERS = {"quick": {"runs": 1000, "wall": 70}, "thorough": {"runs": 10000, "wall": 900}}


def _bench_cfg(index):
    r = random.Random((index // 8 * 2246822519 + 3) % (1 << 32))
    return {"variant": r.choice(["V1", "V2"]), "mps": r.choice([8, 16, 64]), "ep0_mps": r.choice([8, 64, 64])}


def _dev_cfg(c):
    return {"variant": c["variant"], "spy": True, "ep0_mps": c["ep0_mps"],
            "endpoints": [{"kind": "stream_in", "ep": 1, "mps": c["mps"]}, {"kind": "stream_out", "ep": 2, "mps": c["mps"]},
                          {"kind": "status_in", "ep": 3, "width": 16, "endianness": "little"}]}


def _setup(rng):
    k = rng.choice(["get_dev", "get_dev8", "get_cfg", "get_cfg9", "get_str", "get_bad_desc", "set_addr", "set_cfg", "get_config",
                    "get_status", "clear_halt", "vendor_in", "vendor_out", "class_nodata", "set_desc"])
    def s(bm, req, val, idx, ln):
        return bytes([bm, req, val & 0xFF, val >> 8, idx & 0xFF, idx >> 8, ln & 0xFF, ln >> 8])
    if k == "get_dev":
        return s(0x80, 6, 0x0100, 0, rng.choice([18, 64, 255])), b""
    if k == "get_dev8":
        return s(0x80, 6, 0x0100, 0, 8), b""
    if k == "get_cfg":
        return s(0x80, 6, 0x0200, 0, rng.choice([32, 255, 25])), b""
    if k == "get_cfg9":
        return s(0x80, 6, 0x0200, 0, 9), b""
    if k == "get_str":
        return s(0x80, 6, 0x0300 | rng.randint(0, 4), rng.choice([0, 0x0409]), rng.choice([2, 4, 255])), b""
    if k == "get_bad_desc":
        return s(0x80, 6, rng.choice([0x0600, 0x0201, 0x2200]), 0, 64), b""
    if k == "set_addr":
        return s(0x00, 5, rng.choice([0, 1, 5, 42, 127]), 0, 0), b""
    if k == "set_cfg":
        return s(0x00, 9, rng.choice([0, 1, 1, 2]), 0, 0), b""
    if k == "get_config":
        return s(0x80, 8, 0, 0, 1), b""
    if k == "get_status":
        return s(rng.choice([0x80, 0x81, 0x82]), 0, 0, rng.choice([0, 1, 0x81, 2]), 2), b""
    if k == "clear_halt":
        return s(0x02, 1, 0, rng.choice([0x81, 0x02, 0x83]), 0), b""
    if k == "vendor_in":
        return s(0xC0, rng.getrandbits(8), rng.getrandbits(16), 0, rng.choice([1, 8, 64])), b""
    if k == "vendor_out":
        n = rng.choice([1, 4, 8])
        return s(0x40, rng.getrandbits(8), 0, 0, n), bytes(rng.getrandbits(8) for _ in range(n))
    if k == "class_nodata":
        return s(0x21, rng.getrandbits(8), 0, 0, 0), b""
    n = rng.choice([2, 8])
    return s(0x00, 7, 0x0100, 0, n), bytes(rng.getrandbits(8) for _ in range(n))


def gen(rng, tier, index):
    bc = _bench_cfg(index)
    bit = 5 if bc["variant"] == "V2" else 1
    mps = bc["mps"]
    cfg = dict(bc)

    def pattern(scale):
        style = rng.choice(["always", "never", "mixed", "mixed"])
        if style == "always":
            return [[50, 1]]
        if style == "never":
            return [[50, 0]]
        return [[rng.randint(1, scale), rng.choice([0, 1, 1, 2, 3])] for _ in range(rng.randint(2, 6))]

    cfg.update({
        "byte_period": rng.choice([1, 1, 2, 3]),
        "pre": rng.choice([1, 1, 2]),
        "post": rng.choice([0, 0, 1]),
        "txready": rng.choice(["always", ["every", 2], ["every", 3], ["every", 5],
                               ["list", [rng.getrandbits(1) | (i == 0) for i in range(rng.choice([3, 5, 7, 11]))]]]),
        "producer": pattern(3 * mps),
        "producer_last_every": rng.choice([0, 0, 1, 3, mps, mps + 1, 2 * mps]),
        "consumer": pattern(3 * mps),
        "hs_gap": 2 * bit + rng.choice([0, 0, 1, 3]),
        "gap": 2 * bit + 1 + rng.choice([0, 0, 2, 6]),
    })
    fault_free = rng.random() < 0.15
    p_lost = 0.0 if fault_free else rng.choice([0.05, 0.15, 0.3])
    nops = rng.randint(12, 26 if tier == "quick" else 40)
    weights = {"control": 5, "bulk_in": 4, "bulk_out": 4, "poll": 3, "sof": 1, "foreign": 2, "absent_ep": 1, "idle": 1, "set_signal": 1,
               "bus_reset": 0 if fault_free else rng.choice([0, 0, 1])}
    kinds = [k for k, w in weights.items() for _ in range(w)]
    ops = []
    for _ in range(nops):
        k = rng.choice(kinds)
        op = {"op": k}
        lose = [i for i in range(6) if rng.random() < p_lost]
        if k == "control":
            setup, out = _setup(rng)
            op.update({"setup": setup.hex(), "out": out.hex(), "lose": lose, "naks": rng.choice([1, 2, 4]),
                       "abandon": None if (fault_free or rng.random() > 0.12) else rng.choice(["after_setup", "after_data"])})
        elif k == "bulk_in":
            op.update({"lose": lose, "retries": rng.choice([0, 0, 1, 3])})
        elif k == "bulk_out":
            n = rng.choice([0, 1, mps - 1, mps, mps, rng.randint(0, mps)])
            op.update({"data": bytes(rng.getrandbits(8) for _ in range(n)).hex(), "retries": rng.choice([0, 1, 3]),
                       "duplicate": (not fault_free) and rng.random() < 0.15})
        elif k == "poll":
            op.update({"lose": lose})
        elif k == "sof":
            op.update({"frame": rng.getrandbits(11)})
        elif k == "foreign":
            op.update({"kind": rng.choice(["in_ack", "out", "setup"]), "addr_delta": rng.randint(1, 126), "ep": rng.randint(0, 3),
                       "data": bytes(rng.getrandbits(8) for _ in range(rng.choice([0, 3, 8]))).hex()})
        elif k == "absent_ep":
            op.update({"pid": rng.choice(["IN", "OUT"]), "ep": rng.choice([4, 7, 15]),
                       "data": bytes(rng.getrandbits(8) for _ in range(rng.choice([0, 3, 8]))).hex()})
        elif k == "idle":
            op.update({"n": rng.randint(1, 120)})
        elif k == "set_signal":
            op.update({"value": rng.getrandbits(16)})
        elif k == "bus_reset":
            op.update({"n": rng.randint(310, 420)})
        ops.append(op)
    cfg["idle_data"] = gen_idle_data(rng)
    # address the device had before a bus reset, now owned by another device: SET_ADDRESS ... bus reset ... traffic to that address
    if not fault_free and rng.random() < 0.2:
        i = rng.randint(0, len(ops))
        j = rng.randint(i, len(ops))
        a = rng.choice([1, 5, 42, 127, rng.randint(1, 127)])
        tail = [{"op": "bus_reset", "n": rng.randint(310, 420)}]
        for _ in range(rng.randint(1, 3)):
            tail.append({"op": "foreign", "kind": rng.choice(["in_ack", "in_ack", "out", "setup"]), "addr_delta": 1, "stale": True,
                         "ep": rng.randint(0, 3), "data": bytes(rng.getrandbits(8) for _ in range(rng.choice([0, 3, 8]))).hex()})
        ops[j:j] = tail
        ops[i:i] = [{"op": "control", "setup": bytes([0, 5, a, 0, 0, 0, 0, 0]).hex(), "out": "", "lose": [], "naks": 4, "abandon": None}]
    return {"engine": ENGINE, "config": cfg, "ops": ops}


# ------------------------------------------------------------------------------------------------
def _pat_bit(segs, total, t):
    x = t % total
    for n, mode in segs:
        if x < n:
            return 0 if mode == 0 else (1 if mode == 1 else (1 if x % mode == 0 else 0))
        x -= n
    return 0


class _Streams:
    """ producer on in1 (holds valid until accepted; literal valid pattern, 'last' every n-th byte) and consumer on out2 """

    def __init__(self, cfg):
        self.prod, self.cons = cfg["producer"], cfg["consumer"]
        self.pt, self.ct = sum(s[0] for s in self.prod), sum(s[0] for s in self.cons)
        self.last_every = cfg["producer_last_every"]
        self.count = 0
        self.valid = 0
        self.holding = False
        self.addr_log = []          # (t, spy_address) on change

    def drive(self, t):
        self.valid = 1 if self.holding else _pat_bit(self.prod, self.pt, t)
        last = 1 if (self.last_every and (self.count + 1) % self.last_every == 0) else 0
        return {"in1_valid": self.valid, "in1_payload": self.count & 0xFF, "in1_first": 0, "in1_last": last,
                "out2_ready": _pat_bit(self.cons, self.ct, t)}

    def observe(self, t, o):
        if self.valid and o["in1_ready"]:
            self.count += 1
            self.holding = False
        else:
            self.holding = bool(self.valid)
        a = o["spy_address"]
        if not self.addr_log or self.addr_log[-1][1] != a:
            self.addr_log.append((t, a))


def run(scn):
    cfg = scn["config"]
    variant = cfg["variant"]
    bench = device_bench(_dev_cfg(cfg))
    init = dict(IDLE_INIT)
    init["full_speed_only"] = 1
    bit = 5 if variant == "V2" else 1
    timeout = 18 * bit + 4
    ep0_mps, mps = cfg["ep0_mps"], cfg["mps"]
    ops = scn["ops"]
    viol = Violations()
    probes = {p: 0 for p in PROBES}
    faults = {}
    st = {"addr": 0, "out_toggle": 0}
    streams = _Streams(cfg)
    resets = []

    def fault(k):
        faults[k] = faults.get(k, 0) + 1

    def script(h):
        gap, hs_gap = cfg["gap"], cfg["hs_gap"]

        def xfer_in(ep, lose, counter, naks):
            """ IN token until something other than NAK arrives (at most `naks` NAKs); ACKs data unless that ACK is 'lost'.
                returns (kind, payload) """
            for _ in range(naks + 1):
                yield from h.send(token_packet("IN", st["addr"], ep), info="in")
                r = yield from h.recv(timeout)
                if r is None:
                    yield from h.idle(gap)
                    return ("none", None)
                kind, payload = usb2.classify_tx(r["data"])
                if kind in usb2.DATA_PIDS:
                    if counter[0] in lose:
                        fault("lost_handshake")
                        probes["lost_handshake_then_retry"] += 1
                        counter[0] += 1
                        yield from h.idle(gap + hs_gap)
                        continue                       # the host did not get the data: it asks again
                    counter[0] += 1
                    yield from h.idle(hs_gap)
                    yield from h.send(handshake_packet("ACK"), info="ack")
                    yield from h.idle(gap)
                    return (kind, payload)
                yield from h.idle(gap)
                if kind != "NAK":
                    return (kind, payload)
            return ("NAK", None)

        def xfer_out(pid_tok, ep, dpid, payload, retries):
            for _ in range(retries + 1):
                yield from h.send(token_packet(pid_tok, st["addr"], ep), info="tok")
                yield from h.idle(rngap)
                yield from h.send(data_packet(dpid, payload), info="data")
                r = yield from h.recv(timeout)
                yield from h.idle(gap)
                if r is None:
                    return "none"
                kind = usb2.classify_tx(r["data"])[0]
                if kind != "NAK":
                    return kind
            return "NAK"

        rngap = 2 * bit                  # token -> data gap of the host
        yield from h.idle(4)
        for op in ops:
            k = op["op"]
            if k == "idle":
                yield from h.idle(op["n"])
            elif k == "set_signal":
                h.set_pins(st3_signal=op["value"])
                yield from h.idle(2)
            elif k == "sof":
                yield from h.send(sof_packet(op["frame"]), info="sof")
                yield from h.idle(gap)
            elif k == "bus_reset":
                fault("bus_reset")
                h.set_pins(line_state=0)
                yield from h.idle(op["n"])
                h.set_pins(line_state=1)
                resets.append(h.t)
                if st["addr"]:
                    st["stale"] = st["addr"]
                st["addr"] = 0
                yield from h.idle(10 * bit)
            elif k == "foreign":
                fault("interleave_other_device")
                a = (st["addr"] + op["addr_delta"]) % 128
                if a == st["addr"]:
                    a = (a + 1) % 128
                if op.get("stale") and st.get("stale") and st["stale"] != st["addr"]:
                    a = st["stale"]
                    probes["stale_address_traffic_after_reset"] += 1
                payload = bytes.fromhex(op["data"])
                if op["kind"] == "in_ack":
                    yield from h.send(token_packet("IN", a, op["ep"]), info="foreign")
                    yield from h.idle(timeout)
                    yield from h.send(handshake_packet("ACK"), info="foreign_ack")
                else:
                    yield from h.send(token_packet("OUT" if op["kind"] == "out" else "SETUP", a, op["ep"]), info="foreign")
                    yield from h.idle(rngap)
                    yield from h.send(data_packet("DATA0", payload if op["kind"] == "out" else (payload + bytes(8))[:8]), info="foreign_data")
                yield from h.idle(timeout)
            elif k == "absent_ep":
                probes["unknown_endpoint_token"] += 1
                yield from h.send(token_packet(op["pid"], st["addr"], op["ep"]), info="absent")
                if op["pid"] == "OUT":
                    yield from h.idle(rngap)
                    yield from h.send(data_packet("DATA0", bytes.fromhex(op["data"])), info="absent_data")
                yield from h.recv(timeout)
                yield from h.idle(gap)
            elif k == "poll":
                yield from xfer_in(3, op["lose"], [0], 0)
            elif k == "bulk_in":
                yield from xfer_in(1, op["lose"], [0], op["retries"])
            elif k == "bulk_out":
                payload = bytes.fromhex(op["data"])
                r = yield from xfer_out("OUT", 2, f"DATA{st['out_toggle']}", payload, op["retries"])
                if r == "ACK":
                    if op.get("duplicate"):
                        fault("duplicate_out")
                        probes["duplicate_out"] += 1
                        yield from xfer_out("OUT", 2, f"DATA{st['out_toggle']}", payload, 0)
                    st["out_toggle"] ^= 1
            elif k == "control":
                setup = bytes.fromhex(op["setup"])
                out = bytes.fromhex(op["out"])
                wlen = setup[6] | (setup[7] << 8)
                dir_in = bool(setup[0] & 0x80)
                r = yield from xfer_out("SETUP", 0, "DATA0", setup, 0)
                if r != "ACK":
                    continue
                if op.get("abandon") == "after_setup":
                    fault("abandon_transfer")
                    probes["abandoned_control_transfer"] += 1
                    continue
                counter = [0]
                stalled = False
                if wlen and dir_in:
                    got = 0
                    npk = 0
                    while True:
                        kind, payload = yield from xfer_in(0, op["lose"], counter, op["naks"])
                        if kind not in usb2.DATA_PIDS:
                            stalled = kind in ("STALL", "none", "NAK")
                            break
                        got += len(payload)
                        npk += 1
                        if len(payload) < ep0_mps or got >= wlen or npk >= 6:
                            break
                    if npk > 1:
                        probes["multi_packet_control_in"] += 1
                    if op.get("abandon") == "after_data":
                        fault("abandon_transfer")
                        probes["abandoned_control_transfer"] += 1
                        continue
                    if not stalled:
                        yield from xfer_out("OUT", 0, "DATA1", b"", op["naks"])
                else:
                    if wlen:
                        r = yield from xfer_out("OUT", 0, "DATA1", out[:wlen], op["naks"])
                        if r == "STALL":
                            continue
                        if op.get("abandon") == "after_data":
                            fault("abandon_transfer")
                            probes["abandoned_control_transfer"] += 1
                            continue
                    kind, payload = yield from xfer_in(0, op["lose"], counter, op["naks"])
                    if kind in usb2.DATA_PIDS and setup[0] == 0x00 and setup[1] == 5:
                        st["addr"] = setup[2] & 0x7F
            else:
                raise ValueError(k)
        yield from h.idle(timeout + 10)

    host = UTMIHost(script, idle_data=cfg.get("idle_data"), byte_period=cfg["byte_period"], pre=cfg["pre"], post=cfg["post"],
                    txready=(cfg["txready"] if cfg["txready"] == "always" else tuple(cfg["txready"])))
    per_xfer = (max(mps, ep0_mps) + 16) * 8 + 3 * timeout + 40 * bit + 60
    max_cycles = 1000 + sum((op.get("n", 0) + per_xfer * (12 if op["op"] == "control" else 5)) for op in ops)
    log = bench.run([host, streams], max_cycles, init=init)
    if not host._done:
        raise RuntimeError("host script did not finish within the cycle cap")

    # ---- oracle: wire history only ------------------------------------------------------------------------------------
    def addr_at(t):
        """ the device's address: what it shows on the endpoint interface, except that a bus reset returns it to 0 whatever the
            device shows (only an address change shown after the end of the reset counts from then on) """
        since = max([r for r in resets if r <= t], default=-1)
        a = 0
        for t0, v in streams.addr_log:
            if t0 <= t:
                a = v if t0 > since else 0
            else:
                break
        return a

    if len(streams.addr_log) > 1:
        probes["address_changed"] += len(streams.addr_log) - 1
    shape = {"variant": variant}
    pending = None            # (what, t_end) : the host packet that may be answered now
    last_token = None         # (pid, for_us, ep) of the most recent token
    prev_was_token = False
    outcomes = set()
    silent_foreign = 0
    for ev in host.events:
        kind, t0, t1, raw, info = ev
        if kind == "rx":
            tok = parse_token(raw)
            if pending is None and last_token is not None and not last_token[1] and info in ("foreign_ack", "foreign_data"):
                silent_foreign += 1
            pending = None
            if tok is not None and tok[0] != "SOF":
                for_us = tok[1] == addr_at(t1)
                last_token = (tok[0], for_us, tok[2])
                prev_was_token = True
                if for_us and tok[0] in ("IN", "PING"):
                    pending = (tok[0], t1)
                continue
            d = parse_data(raw)
            if d is not None and prev_was_token and last_token is not None and last_token[1] and last_token[0] in ("OUT", "SETUP"):
                pending = (last_token[0] + "_DATA", t1)
            prev_was_token = False
            continue
        # ---- a device transmission ----
        probes["device_packets"] += 1
        name, payload = usb2.classify_tx(raw)
        after_reset = any(r <= t0 for r in resets)
        if after_reset:
            probes["after_bus_reset_answers"] += 1
        ctx = f"device packet {raw.hex()} in cycles {t0}..{t1}"
        if name == "BAD":
            viol.add("C20.wellformed", t0, f"{ctx}: {payload}; last host token {last_token}, answering {pending}", kind="malformed",
                     answering=pending[0] if pending else "nothing", **shape)
            break
        if name in usb2.DATA_PIDS:
            probes["data_packets"] += 1
        else:
            probes["handshakes"] += 1
            probes["stalls"] += name == "STALL"
            probes["naks"] += name == "NAK"
        outcomes.add(name if name not in usb2.DATA_PIDS else "DATA")
        if pending is None:
            viol.add("C20.solicited", t0, f"{ctx} ({name}) is not the answer to a host packet addressed to the device: last host token "
                     f"{last_token} (pid, addressed to device, ep); device address {addr_at(t0)}", kind="unsolicited",
                     answering="nothing", sent=name if name not in usb2.DATA_PIDS else "DATA", **shape)
            break
        what, t_end = pending
        if t0 - t_end > timeout:
            viol.add("C20.solicited", t0, f"{ctx} ({name}) starts {t0 - t_end} cycles after the {what} it answers (bus timeout "
                     f"{timeout} cycles)", kind="late", answering=what, sent=name if name not in usb2.DATA_PIDS else "DATA", **shape)
            break
        allowed = {"IN": set(usb2.DATA_PIDS) | {"NAK", "STALL"}, "PING": {"ACK", "NAK", "STALL"},
                   "OUT_DATA": {"ACK", "NAK", "STALL", "NYET"}, "SETUP_DATA": {"ACK"}}[what]
        if name not in allowed:
            # Protocol-wise impossible answer (e.g. an ACK handshake after an IN token).  The C20 statement only demands
            # "well-formed" and "in response to a host packet addressed to it", so this is counted, not alarmed (see C07).
            probes["answer_kind_does_not_fit_request"] = probes.get("answer_kind_does_not_fit_request", 0) + 1
        pending = None
    probes["token_not_for_device_silent"] = silent_foreign
    if not viol and host.tx_during_rx:
        t = host.tx_during_rx[0]
        viol.add("C20.not_during_rx", t, f"tx_valid high at cycle {t} while rx_active is high", kind="tx_during_rx", **shape)
    probes["answer_with_tx_stall"] = sum(1 for p in host.tx_packets if p["stalls"])

    sig = hashlib.blake2b(repr((variant, mps, ep0_mps, sorted(log.fsm_vectors), sorted(faults), sorted(outcomes))).encode(),
                          digest_size=8).hexdigest()
    nontrivial = probes["device_packets"] >= 6 and len(outcomes) >= 3
    return {"violations": viol.items, "cycles": log.cycles, "faults": faults, "probes": probes, "sig": sig,
            "nontrivial": nontrivial, "digest": log.digest, "fsm": len(log.fsm_vectors)}
