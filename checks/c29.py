"""
C29 -- multi-byte IN endpoints serialise words little-endian with correct framing.

Two DUT variants per run (scenario knob "dut"):
  component  USBMultibyteStreamInEndpoint alone (byte_width 1..8).  Its collaborator, the inner byte endpoint, is replaced
             by a passive stub object exposing the same two attributes (`stream`, `interface`), so the *inner byte stream*
             (valid/payload/first/last towards the byte endpoint, ready from it) is an ordinary port of the bench: a
             StreamConsumer plays "any byte-endpoint ready pattern", a StreamProducer plays the word stream.  The real
             USBMultibyteStreamInEndpoint code runs unmodified (the stub is injected by rebinding the module-level name it
             looks up when elaborating -- no source change, no internal register is read).
  device     the complete USBDevice (V1 / V2) with a real USBMultibyteStreamInEndpoint (real inner USBStreamInEndpoint):
             words in, host-side bytes out, with lost/garbled ACKs and PHY stalls as in C11.  `first` is not visible
             to a host, so that part of the statement is checked in the component variant only.
"""

import hashlib

from dsim.kernel import make_bench, cached_bench, Violations
from models.usb2_wire import gen_idle_data
from models.usb2 import UTMIHost
from models import streams_usb2 as su
from engines.usb2_device import device_bench, IDLE_INIT

PROPERTY = "C29"
ENGINE = "usb2_device"
CLOCK_HZ = 60e6
RULES = {
    "C29.bytes": "the byte stream is the little-endian serialisation of the accepted words, each exactly once, in order "
                 "(device variant: as accepted by the host, packets <= mps, retries identical, NAK when empty)",
    "C29.first": "first is set exactly on the first byte of a word whose first flag was set",
    "C29.last": "last is set exactly on the final byte of a word whose last flag was set (device variant: transfers end "
                "exactly after such words)",
    "C29.no_overrun": "words are accepted only as fast as the byte endpoint takes bytes: accepted words * width never "
                      "exceeds bytes taken by more than what the endpoint can hold",
    "C29.stream_contract": "towards the byte endpoint valid and payload are held until the byte is taken",
    "C29.progress": "everything accepted is eventually delivered once the byte endpoint / host keeps taking data",
}
PROBES = ["component_runs", "device_runs", "width_1", "width_3", "width_8", "word_first_and_last", "back_to_back_words",
          "byte_stall_mid_word", "byte_stall_on_last_byte", "idle_between_words", "retry_in_device", "zlp_in_device"]
META = {
    "components_real": ["USBMultibyteStreamInEndpoint (both variants)", "device variant: USBDevice, USBStreamInEndpoint, "
                        "USBInTransferManager, token/handshake detectors, packet generator"],
    "components_stubbed": ["component variant: the inner byte endpoint is a passive stub (ports only); word producer and "
                           "byte-ready pattern from the scenario", "device variant: UTMI host/PHY, word producer"],
    "assumptions": ["the word producer holds valid/payload/first/last until accepted",
                    "first/last on the inner byte stream are sampled in the cycle the byte is taken (valid & ready)",
                    "device variant: legal UTMI and host timing as in C11; no traffic for other devices (C11 covers that)"],
    "rule": "byte width 1-8, 1-30 words with random first/last flags and gap patterns; component: byte-endpoint ready phases "
            "(always / never / every k-th cycle); device: host IN polls with missing/garbled ACKs, tx_ready stalls, max "
            "packet size 8/16/64, V1/V2",
}
TIERS = {"quick": {"runs": 5000, "wall": 75}, "thorough": {"runs": 20000, "wall": 900}}

DEV_CONFIGS = [(v, m, w) for (m, w) in ((8, 4), (16, 2), (64, 8), (16, 3), (8, 1), (64, 5), (16, 8), (8, 7)) for v in ("V1", "V2")]


def dev_cfg(variant, mps, width):
    return {"variant": variant, "control": None, "spy": False,
            "endpoints": [{"kind": "multibyte_in", "ep": 1, "mps": mps, "byte_width": width}]}


def _component_bench(width):
    def factory():
        from amaranth import Elaboratable, Module
        import luna.gateware.usb.usb2.endpoints.stream as mod
        from luna.gateware.stream import StreamInterface
        from luna.gateware.usb.usb2.endpoint import EndpointInterface

        class StubByteEndpoint(Elaboratable):
            """ stands in for the inner byte endpoint: nothing but its two public attributes """
            def __init__(self):
                self.stream = StreamInterface()
                self.interface = EndpointInterface()

            def elaborate(self, platform):
                return Module()

        stub = StubByteEndpoint()
        orig = mod.USBStreamInEndpoint
        mod.USBStreamInEndpoint = lambda **kw: stub
        try:
            dut = mod.USBMultibyteStreamInEndpoint(byte_width=width, endpoint_number=1, max_packet_size=64)
            ins = {"w_valid": dut.stream.valid, "w_payload": dut.stream.payload, "w_first": dut.stream.first,
                   "w_last": dut.stream.last, "b_ready": stub.stream.ready}
            outs = {"w_ready": dut.stream.ready, "b_valid": stub.stream.valid, "b_payload": stub.stream.payload,
                    "b_first": stub.stream.first, "b_last": stub.stream.last}
            bench = make_bench(dut, clocks={"usb": 1 / 60e6}, main="usb", ins=ins, outs=outs)
        finally:
            mod.USBStreamInEndpoint = orig
        return bench
    return cached_bench(("c29-component", width), factory)


def gen_words(rng, width, nmax):
    n = rng.randint(1, nmax)
    words = []
    mode = rng.choice(["random", "random", "last_every", "no_last"])
    k = rng.randint(1, 6)
    for i in range(n):
        v = rng.getrandbits(8 * width)
        if rng.random() < 0.1:
            v = rng.choice([0, (1 << (8 * width)) - 1, 0x0102030405060708 & ((1 << (8 * width)) - 1)])
        if mode == "random":
            f, l = int(rng.random() < 0.3), int(rng.random() < 0.3)
        elif mode == "last_every":
            f, l = int(i % k == 0), int(i % k == k - 1)
        else:
            f, l = int(rng.random() < 0.2), 0
        words.append({"v": v, "f": f, "l": l, "g": rng.choice([0, 0, 0, 0, 1, 2, 5, rng.randint(0, 30)])})
    return words


def gen(rng, tier, index):
    if (index // 8) % 3 == 2:
        variant, mps, width = DEV_CONFIGS[(index // 24) % len(DEV_CONFIGS)]
        bit = 5 if variant == "V2" else 1
        nw = max(1, min(30, (5 * mps) // width))
        words = gen_words(rng, width, nw)
        words[-1]["l"] = 1                     # the stream must end deliverable (this endpoint has no flush input)
        fault_free = rng.random() < 0.2
        p_none = 0 if fault_free else rng.choice([0, 0.1, 0.3])
        p_corrupt = 0 if fault_free else rng.choice([0, 0.1, 0.3])
        packets = (len(words) * width) // mps + sum(w["l"] for w in words) + 1
        ops = []
        for _ in range(rng.randint(2, 3 + 2 * packets)):
            r = rng.random()
            if r < 0.75:
                q = rng.random()
                ack = "none" if q < p_none else ("corrupt" if q < p_none + p_corrupt else "good")
                ops.append({"op": "in", "ack": ack, "bit": rng.randrange(8)})
            else:
                ops.append({"op": "idle", "n": rng.choice([1, 5, 20, 80, rng.randint(1, 200)])})
        cfg = {"dut": "device", "variant": variant, "mps": mps, "width": width, "words": words,
               "byte_period": rng.choice([1, 1, 2]), "turn": bit * rng.choice([2, 3, 6]),
               "txready": rng.choice(["always", "always", ["every", 2], ["every", 3]])}
        cfg["idle_data"] = gen_idle_data(rng)
        return {"engine": ENGINE, "config": cfg, "ops": ops}
    width = (index // 8) % 8 + 1 if rng.random() < 0.8 else rng.randint(1, 8)
    words = gen_words(rng, width, 30 if tier == "quick" else 80)
    style = rng.choice(["always", "mixed", "mixed", "slow", "stall_heavy"])
    phases = []
    horizon = len(words) * (width + 4) * 3 + 60
    t = 0
    while t < horizon and style != "always":
        if style == "mixed":
            mode = rng.choice([1, 1, 0, 2, 3])
        elif style == "slow":
            mode = rng.choice([2, 3, 5, 7])
        else:
            mode = rng.choice([0, 0, 1, 2])
        n = rng.choice([1, 1, 2, 3, 5, 9, 20, rng.randint(1, 60)])
        phases.append([n, mode])
        t += n
    cfg = {"dut": "component", "width": width, "words": words, "ready": phases}
    cfg["idle_data"] = gen_idle_data(rng)
    return {"engine": ENGINE, "config": cfg, "ops": []}


def shrink_candidates(scn):
    import copy
    cfg = scn["config"]
    ws = cfg["words"]
    for i in range(len(ws)):
        c = copy.deepcopy(scn)
        del c["config"]["words"][i]
        if c["config"]["words"]:
            if cfg["dut"] == "device":
                c["config"]["words"][-1]["l"] = 1
            yield c
    for i, w in enumerate(ws):
        if w["g"]:
            c = copy.deepcopy(scn)
            c["config"]["words"][i]["g"] = 0
            yield c
    if cfg["dut"] == "component" and cfg["ready"]:
        c = copy.deepcopy(scn)
        c["config"]["ready"] = []
        yield c
        for i in range(len(cfg["ready"])):
            c = copy.deepcopy(scn)
            del c["config"]["ready"][i]
            yield c
    if cfg["dut"] == "device":
        for key, val in (("txready", "always"), ("byte_period", 1)):
            if cfg.get(key) != val:
                c = copy.deepcopy(scn)
                c["config"][key] = val
                yield c


# ---------------------------------------------------------------------------------------------------------------------
def _run_component(scn, probes):
    cfg = scn["config"]
    W = cfg["width"]
    bench = _component_bench(W)
    viol = Violations()
    prod = su.StreamProducer("w_", [dict(w) for w in cfg["words"]], has_flush=False)
    cons = su.StreamConsumer("b_", cfg["ready"])
    base = {"dut": "component", "width": W}

    class Monitor:
        """ per-cycle rules on the inner byte stream """
        def __init__(self):
            self.prev = None          # (valid, payload) of the previous cycle if it was offered and not taken
            self.words = 0
            self.bytes = 0

        def observe(self, t, o):
            if self.prev is not None and not viol:
                if not o["b_valid"]:
                    viol.add("C29.stream_contract", t, "byte stream dropped valid before the byte was taken", kind="valid_dropped", **base)
                elif o["b_payload"] != self.prev:
                    viol.add("C29.stream_contract", t, f"byte stream payload changed from {self.prev:#04x} to {o['b_payload']:#04x} "
                             f"while waiting for ready", kind="payload_changed", **base)
            took = bool(o["b_valid"] and cons._ready)
            self.prev = o["b_payload"] if (o["b_valid"] and not cons._ready) else None
            if prod.presenting and o["w_ready"]:
                self.words += 1
            if took:
                self.bytes += 1
            if self.words * W - self.bytes > W and not viol:
                viol.add("C29.no_overrun", t, f"{self.words} words accepted but only {self.bytes} bytes taken by the byte endpoint "
                         f"(width {W}): more than one word in flight", kind="overrun", **base)

    mon = Monitor()
    total = len(cfg["words"])
    tail = total * W + 40
    max_cycles = sum(n for n, _ in cfg["ready"]) + sum(w["g"] for w in cfg["words"]) + 8 * total * W + tail + 100

    class Stop:
        def observe(self, t, o):
            return prod.done and len(cons.taken) >= total * W and t > (prod.done_at or 0) + 6

    log = bench.run([prod, cons, mon, Stop()], max_cycles)
    # ---- history oracle ----
    exp = []
    for (_, v, f, l) in prod.accepted:
        for k in range(W):
            exp.append(((v >> (8 * k)) & 0xFF, int(bool(f) and k == 0), int(bool(l) and k == W - 1), k))
    got = cons.taken
    for i in range(min(len(exp), len(got))):
        t, b, f, l = got[i]
        eb, ef, el, k = exp[i]
        if b != eb:
            viol.add("C29.bytes", t, f"byte {i} (byte {k} of word {i // W}) is {b:#04x}, little-endian serialisation says {eb:#04x}",
                     kind="wrong_byte", **base)
            break
        if f != ef:
            viol.add("C29.first", t, f"byte {i} (byte {k} of word {i // W}, word first={prod.accepted[i // W][2]}) has first={f}, "
                     f"expected {ef}", kind="first_missing" if ef else "first_spurious", **base)
            break
        if l != el:
            viol.add("C29.last", t, f"byte {i} (byte {k} of word {i // W}, word last={prod.accepted[i // W][3]}) has last={l}, "
                     f"expected {el}", kind="last_missing" if el else "last_spurious", **base)
            break
    else:
        if len(got) > len(exp):
            viol.add("C29.bytes", got[len(exp)][0], f"{len(got) - len(exp)} bytes beyond the accepted words", kind="extra_bytes", **base)
        elif len(got) < len(exp) or not prod.done:
            viol.add("C29.progress", log.cycles, f"{len(got)} of {len(exp)} bytes delivered, {len(prod.accepted)} of {total} words "
                     f"accepted after {log.cycles} cycles with the byte endpoint ready at the end", kind="incomplete", **base)
    # causality: no byte before its word was accepted
    for i in range(min(len(exp), len(got))):
        if got[i][0] <= prod.accepted[i // W][0] and not viol:
            viol.add("C29.bytes", got[i][0], f"byte {i} taken in cycle {got[i][0]}, but word {i // W} was only accepted in cycle "
                     f"{prod.accepted[i // W][0]}", kind="byte_before_word", **base)
    # ---- probes ----
    probes["component_runs"] += 1
    if W in (1, 3, 8):
        probes[f"width_{W}"] += 1
    probes["word_first_and_last"] += sum(1 for a in prod.accepted if a[2] and a[3])
    acc_t = [a[0] for a in prod.accepted]
    taken_t = [g[0] for g in got]
    for j in range(1, len(acc_t)):
        last_byte_t = taken_t[j * W - 1] if j * W - 1 < len(taken_t) else None
        if last_byte_t is not None and acc_t[j] == last_byte_t:
            probes["back_to_back_words"] += 1
        elif last_byte_t is not None and acc_t[j] > last_byte_t + 1:
            probes["idle_between_words"] += 1
    for i in range(1, len(taken_t)):
        if taken_t[i] - taken_t[i - 1] > 1 and i % W != 0:
            probes["byte_stall_mid_word"] += 1
            if i % W == W - 1:
                probes["byte_stall_on_last_byte"] += 1
    faults = {}
    if cons.stall_cycles:
        faults["ready_stall"] = 1
    if any(w["g"] for w in cfg["words"]):
        faults["producer_gap"] = 1
    sig = hashlib.blake2b(repr(("component", W, sorted(log.fsm_vectors), sorted(faults),
                                min(9, probes["back_to_back_words"]), min(9, probes["byte_stall_mid_word"]))).encode(),
                          digest_size=8).hexdigest()
    return {"violations": viol.items, "cycles": log.cycles, "faults": faults, "probes": probes, "sig": sig,
            "nontrivial": len(got) >= 2 * W and bool(faults), "digest": log.digest, "fsm": len(log.fsm_vectors)}


def _run_device(scn, probes):
    cfg = scn["config"]
    variant, mps, W = cfg["variant"], cfg["mps"], cfg["width"]
    bench = device_bench(dev_cfg(variant, mps, W))
    init = dict(IDLE_INIT)
    if variant == "V2":
        init["full_speed_only"] = 1
    viol = Violations()
    ctx = su.HostCtx(variant, turn=cfg["turn"])
    prod = su.StreamProducer("mb1_", [dict(w) for w in cfg["words"]], has_flush=False)
    ops = scn["ops"]
    total_bytes = len(cfg["words"]) * W
    drain_budget = 2 * (total_bytes // mps + sum(w["l"] for w in cfg["words"]) + 2) + 8
    state = {"polls": 0}
    base = {"dut": "device", "variant": variant, "width": W}

    class Overrun:
        """ accepted words * W - bytes acknowledged by the host <= what the endpoint can hold (2 packet buffers + 1 word) """
        def __init__(self):
            self.words = 0

        def observe(self, t, o):
            if prod.presenting and o["mb1_ready"]:
                self.words += 1
                acked = sum(len(x["payload"]) for x in ctx.txns if x["kind"] == "in" and x.get("acked"))
                if self.words * W - acked > 2 * mps + W and not viol:
                    viol.add("C29.no_overrun", t, f"{self.words} words of {W} bytes accepted while the host has acknowledged "
                             f"{acked} bytes: exceeds two packet buffers of {mps} plus one word", kind="overrun", **base)

    def script(h):
        yield from h.idle(4)
        for op in ops:
            if op["op"] == "in":
                yield from su.txn_in(h, ctx, 1, ack=op["ack"], ack_bit=op.get("bit", 4))
            else:
                yield from h.idle(op["n"])
        stalled = 0
        while state["polls"] < drain_budget and stalled < 40:
            before = (len(prod.accepted), len(ctx.in_accepted.get(1, b"")))
            rec = yield from su.txn_in(h, ctx, 1, ack="good")
            if prod.done:
                state["polls"] += 1
            if rec.get("resp") == "NAK":
                if prod.done and len(ctx.in_accepted.get(1, b"")) >= total_bytes and h.t > (prod.done_at or 0) + 4 * W + 8:
                    break
                yield from h.idle(20)
            stalled = stalled + 1 if before == (len(prod.accepted), len(ctx.in_accepted.get(1, b""))) else 0
        yield from h.idle(6)

    txr = cfg["txready"] if cfg["txready"] == "always" else tuple(cfg["txready"])
    host = UTMIHost(script, idle_data=cfg.get("idle_data"), byte_period=cfg["byte_period"], pre=1, post=0, txready=txr)
    stall = 1 if txr == "always" else 3
    per_txn = 12 * cfg["byte_period"] + (mps + 6) * stall + 2 * ctx.timeout + 4 * ctx.turn + 40
    max_cycles = 1000 + sum(op.get("n", 0) for op in ops) + (len(ops) + 2 * drain_budget) * per_txn \
        + 2 * sum(w["g"] + W + 2 for w in cfg["words"])
    log = bench.run([host, prod, Overrun()], max_cycles, init=init)
    if not host._done:
        raise RuntimeError(f"host script did not finish within {max_cycles} cycles")
    if host.tx_during_rx:
        raise RuntimeError("host model transmitted while the device was transmitting (harness bug)")
    accepted = []
    for (t, v, f, l) in prod.accepted:
        for k in range(W):
            accepted.append((t, (v >> (8 * k)) & 0xFF, int(bool(f) and k == 0), int(bool(l) and k == W - 1)))
    R = {"conservation": "C29.bytes", "max_packet": "C29.bytes", "retry_identical": "C29.bytes", "nak_when_empty": "C29.bytes",
         "transfer_end": "C29.last", "progress": "C29.progress"}
    summ = su.check_in_stream(viol, R, [x for x in ctx.txns if x.get("ep") == 1], accepted, mps, flush_used=[],
                              complete_expected=prod.done, base=base)
    if not prod.done and not viol:
        viol.add("C29.progress", log.cycles, f"only {len(prod.accepted)} of {len(cfg['words'])} words accepted after the drain",
                 kind="producer_stuck", **base)
    if len(host.tx_packets) != ctx.n_recv and not viol:
        viol.add("C29.bytes", host.tx_packets[-1]["start"], "unsolicited device transmission", kind="unsolicited", **base)
    probes["device_runs"] += 1
    if W in (1, 3, 8):
        probes[f"width_{W}"] += 1
    probes["retry_in_device"] += summ["retries"]
    probes["zlp_in_device"] += summ["zlps"]
    probes["word_first_and_last"] += sum(1 for a in prod.accepted if a[2] and a[3])
    if txr != "always":
        ctx.fault("txready_stall")
    if any(w["g"] for w in cfg["words"]):
        ctx.fault("producer_gap")
    outcome = sorted(set(str(x.get("resp"))[:5] for x in ctx.txns))
    sig = hashlib.blake2b(repr(("device", variant, mps, W, sorted(log.fsm_vectors), sorted(ctx.faults), outcome)).encode(),
                          digest_size=8).hexdigest()
    return {"violations": viol.items, "cycles": log.cycles, "faults": ctx.faults, "probes": probes, "sig": sig,
            "nontrivial": summ["packets"] > 0 and bool(ctx.faults), "digest": log.digest, "fsm": len(log.fsm_vectors)}


def run(scn):
    probes = {p: 0 for p in PROBES}
    if scn["config"]["dut"] == "component":
        return _run_component(scn, probes)
    return _run_device(scn, probes)
