"""
C12 -- endpoints act only on tokens for their own endpoint number.

DUT: a complete USBDevice (V1 / V2 timing) with five non-control endpoints sharing the device: USBStreamInEndpoint 1 and 2,
USBStreamOutEndpoint 1 and 2 (different max packet sizes), USBSignalInEndpoint 3.  The per-endpoint workloads of C11 / C13 / C17
run at the same time; a literal op list interleaves them transaction by transaction (same / different endpoint numbers and
directions, missing and garbled ACKs on one endpoint while another is polled, corrupted OUT data, PINGs, tokens for endpoint
numbers nobody owns, SOFs, and OUT tokens that arrive corrupted -- the data packet that follows then has no token).

Oracle: every device transmission belongs to the response window of a well-formed token for an existing endpoint of that
direction (C12.response_attribution); each endpoint's projection of the history satisfies its own C11 / C13 / C17 oracle
unchanged (C12.projection; the first/last flags of C13 are not part of this property and are not checked here); per-endpoint
data toggles follow only that endpoint's own transactions (C12.toggle_isolation).  The consumers are always ready and the
buffers hold three packets, so the back-pressure behaviour examined by C13 does not interfere.
"""

import hashlib

from dsim.kernel import Violations
from models.usb2_wire import gen_idle_data
from models.usb2 import UTMIHost, token_packet, parse_data
from models import streams_usb2 as su
from engines.usb2_device import device_bench, IDLE_INIT

PROPERTY = "C12"
ENGINE = "usb2_device"
CLOCK_HZ = 60e6
RULES = {
    "C12.response_attribution": "the device transmits (data or handshake) only in answer to a well-formed token naming an "
                                "existing endpoint number and direction; nothing is sent for other tokens or without a token",
    "C12.projection": "each endpoint's own transactions, taken alone, satisfy that endpoint's stream oracle (C11 for IN, C13 "
                      "for OUT, C17 for the status endpoint) whatever happens on the other endpoints in between",
    "C12.toggle_isolation": "an endpoint's data toggle changes only through its own successful transactions",
}
PROBES = ["in_unacked_then_other_ep", "in_unacked_then_same_number_out", "out_lost_ack_then_other_ep", "status_unacked_then_other_ep",
          "token_nobody_owns", "ping_to_in_only_number", "corrupt_out_token", "switch_between_in_eps_back_to_back",
          "status_polls", "v2_runs"]
META = {
    "components_real": ["USBDevice", "USBEndpointMultiplexer", "USBStreamInEndpoint x2", "USBStreamOutEndpoint x2",
                        "USBSignalInEndpoint", "USBInTransferManager", "TransactionalizedFIFO", "token/handshake detectors and "
                        "generators", "USBDataPacketReceiver/Generator"],
    "components_stubbed": ["UTMI PHY + host (models.usb2.UTMIHost + models.streams_usb2 transactions)",
                           "stream producers, always-ready consumers, status signal schedule"],
    "assumptions": ["legal UTMI; legal host timing", "a corrupted OUT token is followed by its data packet (the host cannot know "
                    "the token was damaged): that packet has no token and must be ignored by every endpoint",
                    "no traffic for other device addresses here (C11 covers it)"],
    "rule": "per-endpoint streams/queues as in C11/C13; op list drawn with runs that switch endpoint after every transaction, "
            "biased to change endpoint right after an unacknowledged packet; 2 timing variants x 3 max-packet-size pairs",
}
TIERS = {"quick": {"runs": 1000, "wall": 75}, "thorough": {"runs": 7000, "wall": 900}}

CONFIGS = [(v, a, b, w) for (a, b, w) in ((8, 16, 8), (16, 8, 16), (64, 8, 32)) for v in ("V1", "V2")]
IN_EPS = (1, 2)
OUT_EPS = (1, 2)
ST_EP = 3


def dev_cfg(variant, a, b, w):
    return {"variant": variant, "control": None, "spy": False,
            "endpoints": [{"kind": "stream_in", "ep": 1, "mps": a}, {"kind": "stream_out", "ep": 1, "mps": a, "buffer": 3 * a + 1},
                          {"kind": "stream_in", "ep": 2, "mps": b}, {"kind": "stream_out", "ep": 2, "mps": b, "buffer": 3 * b + 1},
                          {"kind": "status_in", "ep": ST_EP, "width": w}]}


def gen(rng, tier, index):
    variant, a, b, w = CONFIGS[(index // 8) % len(CONFIGS)]
    mps = {1: a, 2: b}
    bit = 5 if variant == "V2" else 1
    fault_free = rng.random() < 0.15
    p_none = 0 if fault_free else rng.choice([0, 0.1, 0.3])
    p_corrupt = 0 if fault_free else rng.choice([0, 0.1, 0.25])
    p_outf = 0 if fault_free else rng.choice([0, 0.15, 0.3])
    p_badtok = 0 if fault_free else rng.choice([0, 0, 0.08])
    streams = {str(e): su.gen_in_transfers(rng, mps[e], max_transfers=5, max_bytes=max(24, 3 * mps[e])) for e in IN_EPS}
    for e in IN_EPS:
        if streams[str(e)]:
            streams[str(e)][-1]["last"] = 1
    queues = {str(e): [bytes(rng.getrandbits(8) for _ in range(rng.choice([0, 1, mps[e] - 1, mps[e], mps[e], rng.randint(0, mps[e])]))).hex()
                       for _ in range(rng.randint(2, 7))] for e in OUT_EPS}
    signal = [[0, rng.getrandbits(w)]]
    t = 0
    for _ in range(rng.randint(0, 6)):
        t += rng.randint(20, 600)
        signal.append([t, rng.getrandbits(w)])
    n = rng.randint(10, 30 if tier == "quick" else 70)
    ops = []
    prev = None
    while len(ops) < n:
        r = rng.random()
        kinds = [("in", 1), ("in", 2), ("out", 1), ("out", 2), ("st", 3)]
        # bias: after an unacknowledged packet talk to somebody else first
        choice = rng.choice(kinds)
        if prev is not None and rng.random() < 0.6:
            others = [k for k in kinds if k != prev]
            same_number = [k for k in others if k[1] == prev[1]]
            choice = rng.choice(same_number) if (same_number and rng.random() < 0.4) else rng.choice(others)
        prev = None
        if r < 0.08:
            ops.append({"op": "tok_other", "pid": rng.choice(["IN", "OUT", "PING"]), "ep": rng.choice([4, 5, 7, 15, 0])})
            continue
        if r < 0.12:
            ops.append({"op": "ping", "ep": rng.choice([1, 2, 3])})
            continue
        if r < 0.16:
            ops.append({"op": "sof", "frame": rng.getrandbits(11)})
            continue
        if r < 0.22:
            ops.append({"op": "idle", "n": rng.choice([1, 5, 30, 150])})
            continue
        if choice[0] in ("in", "st"):
            q = rng.random()
            ack = "none" if q < p_none else ("corrupt" if q < p_none + p_corrupt else "good")
            ops.append({"op": "in", "ep": choice[1], "ack": ack, "bit": rng.randrange(8)})
            if ack != "good":
                prev = choice
        else:
            op = {"op": "out", "ep": choice[1]}
            if rng.random() < p_badtok:
                op["token_fault"] = {"kind": "corrupt_bit", "bits": [rng.randrange(24)]}
            elif rng.random() < p_outf:
                k = rng.choice(["lost_ack", "lost_ack", "wrong_toggle", "corrupt_bit", "truncate"])
                op["fault"] = ({"kind": k, "bits": [rng.randrange(64)]} if k == "corrupt_bit" else
                               {"kind": k, "to": rng.randint(1, 6)} if k == "truncate" else {"kind": k})
                if k == "lost_ack":
                    prev = choice
            ops.append(op)
    cfg = {"variant": variant, "mps_a": a, "mps_b": b, "width": w,
           "byte_period": rng.choice([1, 1, 2]), "pre": rng.choice([1, 1, 2]), "post": rng.choice([0, 0, 1]),
           "turn": bit * rng.choice([2, 2, 3, 6]), "tok_gap": bit * rng.choice([2, 3]),
           "txready": rng.choice(["always", "always", ["every", 2], ["every", 3]]),
           "streams": streams, "queues": queues, "signal": signal}
    cfg["idle_data"] = gen_idle_data(rng)
    return {"engine": ENGINE, "config": cfg, "ops": ops}


def shrink_candidates(scn):
    import copy
    cfg = scn["config"]
    for e in cfg["streams"]:
        for i in range(len(cfg["streams"][e])):
            c = copy.deepcopy(scn)
            del c["config"]["streams"][e][i]
            if c["config"]["streams"][e]:
                c["config"]["streams"][e][-1]["last"] = 1
            yield c
    for e in cfg["queues"]:
        for i in range(len(cfg["queues"][e])):
            c = copy.deepcopy(scn)
            del c["config"]["queues"][e][i]
            yield c
    for key, val in (("txready", "always"), ("byte_period", 1), ("post", 0), ("pre", 1)):
        if cfg.get(key) != val:
            c = copy.deepcopy(scn)
            c["config"][key] = val
            yield c
    for i, op in enumerate(scn["ops"]):
        if op.get("op") == "in" and op.get("ack") != "good":
            c = copy.deepcopy(scn)
            c["ops"][i] = dict(op, ack="good")
            yield c
        if op.get("op") == "out" and op.get("fault"):
            c = copy.deepcopy(scn)
            c["ops"][i] = {"op": "out", "ep": op["ep"]}
            yield c


class SignalDriver:
    def __init__(self, pin, schedule):
        self.pin = pin
        self.schedule = [list(x) for x in schedule]
        self.i = 0
        self.value = self.schedule[0][1]

    def drive(self, t):
        while self.i + 1 < len(self.schedule) and t >= self.schedule[self.i + 1][0]:
            self.i += 1
        self.value = self.schedule[self.i][1]
        return {self.pin: self.value}

    def values_between(self, t0, t1):
        out = []
        for k, (t, v) in enumerate(self.schedule):
            t_next = self.schedule[k + 1][0] if k + 1 < len(self.schedule) else 1 << 60
            if t <= t1 and t_next > t0:
                out.append(v)
        return out


def run(scn):
    cfg = scn["config"]
    variant, a, b, w = cfg["variant"], cfg["mps_a"], cfg["mps_b"], cfg["width"]
    mps = {1: a, 2: b}
    bench = device_bench(dev_cfg(variant, a, b, w))
    init = dict(IDLE_INIT)
    if variant == "V2":
        init["full_speed_only"] = 1
    viol = Violations()
    probes = {p: 0 for p in PROBES}
    ctx = su.HostCtx(variant, turn=cfg["turn"], tok_gap=cfg["tok_gap"])
    prods = {e: su.StreamProducer(f"in{e}_", su.expand_beats(cfg["streams"][str(e)]), events=ctx.events) for e in IN_EPS}
    conss = {e: su.StreamConsumer(f"out{e}_", []) for e in OUT_EPS}
    for e in OUT_EPS:
        ctx.out_queue[e] = [bytes.fromhex(q) for q in cfg["queues"][str(e)]]
    sig_drv = SignalDriver(f"st{ST_EP}_signal", cfg["signal"])
    ops = scn["ops"]
    nbytes = (w + 7) // 8
    budget = {e: 2 * (len(prods[e].beats) // mps[e] + len(cfg["streams"][str(e)]) + 2) + 6 for e in IN_EPS}
    state = {"polls": {e: 0 for e in IN_EPS}}

    def tok_other(h, pid, ep, kind="tok_other"):
        t0, t_end = yield from h.send(token_packet(pid, 0, ep))
        r = yield from h.recv(ctx.timeout)
        if r is not None:
            ctx.n_recv += 1
        ctx.txns.append({"kind": kind, "ep": None, "pid": pid, "tok_ep": ep, "t_tok_start": t0, "t_tok": t_end, "t_done": h.t,
                         "resp": None if r is None else r["data"].hex(), "t_resp": None if r is None else r["start"]})
        yield from h.idle(ctx.turn)

    def script(h):
        yield from h.idle(4)
        last = None            # (kind, ep, unacked?) of the previous transaction
        for op in ops:
            k = op["op"]
            cur = None
            if k == "in":
                e = op["ep"]
                if last and last[2] and (last[0], last[1]) != ("in", e):
                    probes["status_unacked_then_other_ep" if last[1] == ST_EP else "in_unacked_then_other_ep"] += 1
                if last and last[0] == "in" and last[1] != e and last[1] != ST_EP and e != ST_EP:
                    probes["switch_between_in_eps_back_to_back"] += 1
                rec = yield from su.txn_in(h, ctx, e, ack=op["ack"], ack_bit=op.get("bit", 4),
                                           kind="status_poll" if e == ST_EP else "in")
                if e == ST_EP:
                    probes["status_polls"] += 1
                cur = ("in", e, rec.get("resp") in su.DATA01 and not rec["acked"])
            elif k == "out":
                e = op["ep"]
                if last and last[2] and last[0] == "in":
                    probes["in_unacked_then_same_number_out" if last[1] == e else "in_unacked_then_other_ep"] += 1
                if last and last[2] and last[0] == "out" and last[1] != e:
                    probes["out_lost_ack_then_other_ep"] += 1
                if op.get("token_fault"):
                    probes["corrupt_out_token"] += 1
                rec = yield from su.txn_out(h, ctx, e, fault=op.get("fault"), token_fault=op.get("token_fault"))
                if rec is not None:
                    yield from h.idle(mps[e] + 6)
                    cur = ("out", e, (op.get("fault") or {}).get("kind") == "lost_ack")
            elif k == "ping":
                if op["ep"] == ST_EP:
                    probes["ping_to_in_only_number"] += 1
                    yield from tok_other(h, "PING", op["ep"])
                else:
                    yield from su.txn_ping(h, ctx, op["ep"])
            elif k == "tok_other":
                probes["token_nobody_owns"] += 1
                yield from tok_other(h, op["pid"], op["ep"])
            elif k == "sof":
                yield from su.txn_sof(h, ctx, op["frame"])
            elif k == "idle":
                yield from h.idle(op["n"])
            else:
                raise ValueError(k)
            last = cur
        # ---- fault-free drain of everything, still interleaved (round robin) ----
        active = True
        while active:
            active = False
            for e in IN_EPS:
                pend = (not prods[e].done) or len(ctx.in_accepted.get(e, b"")) < len(prods[e].accepted) or not state.get(("nak", e))
                if pend and state["polls"][e] < budget[e] and state.setdefault(("stall", e), 0) < 40:
                    before = (len(prods[e].accepted), len(ctx.in_accepted.get(e, b"")))
                    rec = yield from su.txn_in(h, ctx, e, ack="good")
                    if prods[e].done:
                        state["polls"][e] += 1
                    state[("stall", e)] = state[("stall", e)] + 1 if before == (len(prods[e].accepted), len(ctx.in_accepted.get(e, b""))) else 0
                    if rec.get("resp") == "NAK":
                        if prods[e].done and len(ctx.in_accepted.get(e, b"")) >= len(prods[e].accepted):
                            state[("nak", e)] = True
                        else:
                            yield from h.idle(10)
                    active = True
            for e in OUT_EPS:
                if ctx.out_head.get(e, 0) < len(ctx.out_queue[e]) and state.setdefault(("out", e), 0) < 2 * len(ctx.out_queue[e]) + 4:
                    yield from su.txn_out(h, ctx, e)
                    yield from h.idle(mps[e] + 6)
                    state[("out", e)] += 1
                    active = True
        yield from h.idle(max(a, b) + 30)

    txr = cfg["txready"] if cfg["txready"] == "always" else tuple(cfg["txready"])
    host = UTMIHost(script, idle_data=cfg.get("idle_data"), byte_period=cfg["byte_period"], pre=cfg["pre"], post=cfg["post"], txready=txr)
    stall = 1 if txr == "always" else 3
    big = max(a, b)
    per_txn = (big + 14) * (cfg["byte_period"] + stall) + 2 * ctx.timeout + 4 * ctx.turn + ctx.tok_gap + big + 60
    n_drain = sum(2 * budget[e] for e in IN_EPS) + sum(2 * len(ctx.out_queue[e]) + 4 for e in OUT_EPS)
    max_cycles = 1000 + sum(op.get("n", 0) for op in ops) + (len(ops) + n_drain) * per_txn \
        + 2 * sum(t["pre"] + (len(t["data"]) // 2) * (1 + max(t["gaps"])) for e in IN_EPS for t in cfg["streams"][str(e)])
    actors = [host] + [prods[e] for e in IN_EPS] + [conss[e] for e in OUT_EPS] + [sig_drv]
    log = bench.run(actors, max_cycles, init=init)
    if not host._done:
        raise RuntimeError(f"host script did not finish within {max_cycles} cycles")
    if host.tx_during_rx:
        raise RuntimeError("host model transmitted while the device was transmitting (harness bug)")

    # ---------------------------------------------------------------------------------------------------------
    base = {"variant": variant}

    # (1) attribution
    for x in ctx.txns:
        if x["kind"] == "tok_other" and x.get("resp") is not None:
            viol.add("C12.response_attribution", x["t_resp"], f"device answered {x['resp']} to a {x['pid']} token for endpoint "
                     f"{x['tok_ep']}, which no endpoint of that direction owns", kind="answered_unowned_token", **base)
        if x["kind"] == "out" and not x.get("token_ok", True):
            if x["resp"] != "none":
                viol.add("C12.response_attribution", x["t_data_end"], f"data packet without a valid token (the OUT token was "
                         f"corrupted: {x['wire_token'].hex()}) was answered with {x['resp']}", kind="data_without_token_answered", **base)
    if len(host.tx_packets) != ctx.n_recv:
        viol.add("C12.response_attribution", host.tx_packets[-1]["start"], f"{len(host.tx_packets) - ctx.n_recv} device transmission(s) "
                 f"outside any response window", kind="unsolicited", **base)

    # (2) projections
    def remap(tmp, tag):
        for v in tmp.items:
            sh = v["shape"]
            inner = v["rule"]
            if sh.get("kind") == "pid_not_toggled" or sh.get("pid_changed"):
                rule = "C12.toggle_isolation"
            else:
                rule = "C12.projection"
            viol.add(rule, v["cycle"], f"[{tag}] {v['msg']}", endpoint=tag, inner=inner, kind=str(sh.get("kind")), **base)

    RI = {k: "C11." + k for k in ("conservation", "max_packet", "transfer_end", "retry_identical", "nak_when_empty", "progress")}
    RO = {k: "C13." + k for k in ("stream_equals_accepted", "ack_implies_delivered", "dup_acked_not_delivered", "response", "ping",
                                  "progress", "last_flag", "first_flag")}
    summs = {}
    for e in IN_EPS:
        tmp = Violations()
        mine = [x for x in ctx.txns if x["kind"] == "in" and x["ep"] == e]
        summs[("in", e)] = su.check_in_stream(tmp, RI, mine, prods[e].accepted, mps[e], flush_used=[],
                                              complete_expected=prods[e].done, label="")
        if not prods[e].done and not tmp:
            tmp.add("C11.progress", log.cycles, "producer stuck", kind="producer_stuck")
        remap(tmp, f"in{e}")
    for e in OUT_EPS:
        tmp = Violations()
        mine = [x for x in ctx.txns if x["kind"] in ("out", "ping") and x["ep"] == e and x.get("token_ok", True)]
        summs[("out", e)] = su.check_out_stream(tmp, RO, mine, conss[e].taken, mps[e], 3 * mps[e] + 1, conss[e], check_flags=False)
        if ctx.out_head.get(e, 0) < len(ctx.out_queue[e]) and not tmp:
            tmp.add("C13.progress", log.cycles, f"queue not delivered in the drain ({ctx.out_head.get(e, 0)}/{len(ctx.out_queue[e])})",
                    kind="drain_stuck")
        remap(tmp, f"out{e}")
    # status endpoint (C17 projection): payload = a value the signal had while the token was answered; retries identical;
    # PID alternates with every acknowledged packet
    tog = 0
    unacked = None
    for x in ctx.txns:
        if x["kind"] != "status_poll":
            continue
        resp = x.get("resp")
        t = x.get("t_resp", x["t_tok"])
        if resp not in su.DATA01:
            viol.add("C12.projection", t, f"[st{ST_EP}] status endpoint answered an IN token with {resp!r}", endpoint=f"st{ST_EP}",
                     inner="C17", kind="bad_response", **base)
            break
        pid = 1 if resp == "DATA1" else 0
        vals = [su.le_bytes(v, nbytes) for v in sig_drv.values_between(x["t_tok_start"] - 2, x["t_resp_end"])]
        if unacked is not None:
            if (pid, x["payload"]) != unacked:
                viol.add("C12.toggle_isolation" if pid != unacked[0] else "C12.projection", t,
                         f"[st{ST_EP}] re-sent status packet differs: DATA{unacked[0]} {unacked[1].hex()} then DATA{pid} "
                         f"{x['payload'].hex()}", endpoint=f"st{ST_EP}", inner="C17", kind="retry_differs", **base)
                break
        else:
            if x["payload"] not in vals:
                viol.add("C12.projection", t, f"[st{ST_EP}] status payload {x['payload'].hex()} is none of the values the signal had "
                         f"while the token was answered: {[v.hex() for v in vals]}", endpoint=f"st{ST_EP}", inner="C17",
                         kind="wrong_value", **base)
                break
            if pid != tog:
                viol.add("C12.toggle_isolation", t, f"[st{ST_EP}] status packet carries DATA{pid}, its own history says DATA{tog}",
                         endpoint=f"st{ST_EP}", inner="C17", kind="pid_not_toggled", **base)
                break
        if x["acked"]:
            tog = pid ^ 1
            unacked = None
        else:
            unacked = (pid, x["payload"])

    if variant == "V2":
        probes["v2_runs"] += 1
    if txr != "always":
        ctx.fault("txready_stall")
    ctx.fault("interleave_other_ep")
    outcome = sorted(set(f"{x['kind']}:{str(x.get('resp'))[:5]}" for x in ctx.txns))
    sig = hashlib.blake2b(repr((variant, a, b, w, sorted(log.fsm_vectors), sorted(ctx.faults), outcome)).encode(),
                          digest_size=8).hexdigest()
    n_data = sum(s.get("packets", 0) for s in summs.values()) + sum(s.get("acks_new", 0) for s in summs.values())
    return {"violations": viol.items, "cycles": log.cycles, "faults": ctx.faults, "probes": probes, "sig": sig,
            "nontrivial": n_data > 3, "digest": log.digest, "fsm": len(log.fsm_vectors)}
