"""
C36 -- header and data packets are transmitted with correct framing and CRCs.

DUT: RawPacketTransmitter (real) whose accepted words (source.valid & source.ready) feed a RawHeaderPacketReceiver and
a DataPacketReceiver (both real; the only glue is `rx.sink.valid = tx.source.valid & tx.source.ready`).
Actors: packet requester (header record + generate, pulsed or held), gap-free payload source on data_sink, PHY-side
ready pattern.  Oracles: the reference builder of models.usb3_link (independent CRC-5 / CRC-16 / CRC-32) predicts the
exact accepted word sequence; the receivers must hand back the same header and payload and call the payload good.
"""

import hashlib

from dsim.kernel import make_bench, cached_bench, Violations
from models import usb3_link as L

PROPERTY = "C36"
ENGINE = "usb3_link"
CLOCK_HZ = 125e6
RULES = {
    "C36.header_words": "HPSTART, DW0..DW2 unchanged, DW3 = reference CRC-16 | seq | reserved | hub depth | DL | DF | reference CRC-5; nothing follows a non-data header",
    "C36.dpp_words": "a data header is followed by DPPSTART, the payload bytes in order, the reference CRC-32 immediately after the last byte, "
                     "END END END EPF immediately after the CRC, idle symbols up to the word boundary",
    "C36.edb_when_delayed": "a data header marked delayed is followed by DPPSTART and EDB EDB EDB EPF only",
    "C36.done": "done is high exactly in the cycle in which the last word of a packet is accepted",
    "C36.progress": "a requested packet is completely on the wire within a bound once the PHY side is ready",
    "C36.roundtrip": "RawHeaderPacketReceiver reports the same header exactly once (no bad packet / bad sequence); DataPacketReceiver returns "
                     "the same header and payload bytes and its first verdict for the packet is 'good'",
}
PROBES = ["len_mod4_0", "len_mod4_1", "len_mod4_2", "len_mod4_3", "zlp", "delayed_data_header", "non_data_header", "stall_in_header",
          "stall_in_payload", "stall_before_crc_word", "held_generate_back_to_back", "header_changed_mid_packet", "stray_payload_on_non_data_header",
          "len_ge_64"]
META = {
    "components_real": ["RawPacketTransmitter", "RawHeaderPacketReceiver", "DataPacketReceiver", "HeaderPacketCRC", "DataPacketPayloadCRC", "compute_usb_crc5"],
    "components_stubbed": ["header requester and payload source (protocol layer)", "PHY-side ready (literal pattern)",
                           "glue: receiver sink.valid = transmitter source.valid & ready"],
    "assumptions": ["the payload source is gap-free: valid from at most 4 cycles after the request until its last word is accepted (USB3 stream contract of "
                    "DataPacketTransmitter); sources with gaps are not generated",
                    "header type 0b11000 (reserved, low four bits equal to DATA) is not generated",
                    "'END padding' of the statement is read as in the USB3 byte stream: DPPEND directly follows the CRC-32, the rest of the word is idle",
                    "new requests are only asserted while the transmitter is idle; holding generate / changing the header record mid-packet is exercised"],
    "rule": "3-9 packets per run: random header words and link fields, data headers with payload length 0..64 (quick; every length mod 4; up to 1024 in thorough), "
            "delayed flag, pulse/hold generate, ready stall patterns; distinct = FSM vectors + stall classes + length classes",
}
TIERS = {"quick": {"runs": 1600, "wall": 70}, "thorough": {"runs": 25000, "wall": 900}}

_DH_LAYOUT = []          # (field, width) of DataHeaderPacket, filled when the bench is built
HDR_FIELDS = ["dw0", "dw1", "dw2", "crc16", "sequence_number", "dw3_reserved", "hub_depth", "delayed", "deferred", "crc5"]


def _ready_pattern(rng):
    kind = rng.choice(["always", "always", "half", "rand", "rand", "sparse"])
    if kind == "always":
        return [1]
    if kind == "half":
        return [1, 0]
    if kind == "sparse":
        return [1] + [0] * rng.randint(2, 5)
    r = [int(rng.random() < rng.choice([0.5, 0.8])) for _ in range(rng.randint(5, 29))]
    r[0] = 1
    return r


def gen(rng, tier, index):
    nops = rng.randint(3, 7 if tier == "quick" else 9)
    maxlen = rng.choice([64] * 11 + [1024]) if tier == "quick" else rng.choice([64, 64, 256, 1024])
    ops = []
    for i in range(nops):
        is_data = rng.random() < 0.65
        op = {"seq": rng.getrandbits(3), "rsvd": rng.choice([0, 0, rng.getrandbits(3)]), "hub": rng.choice([0, rng.getrandbits(3)]),
              "dl": 0, "df": int(rng.random() < 0.2), "junk16": rng.getrandbits(16), "junk5": rng.getrandbits(5),
              "mode": rng.choice(["pulse", "hold", "hold"]), "gap": rng.choice([0, 0, 1, 2, 7]), "wiggle": int(rng.random() < 0.3),
              "lead": rng.randint(0, 4)}
        if is_data:
            if i == 0 and maxlen == 1024 and tier == "quick":
                n = rng.choice([1024, 1024, 1023, 1022, 1021, 1020])      # the largest payloads: boundary of the length counter
            elif i == 0:
                n = (index % (maxlen + 1))
            else:
                n = rng.choice([0, rng.randint(1, 8), rng.randint(1, 16), rng.randint(1, maxlen), rng.randint(1, maxlen)])
            payload = bytes(rng.getrandbits(8) for _ in range(n))
            if n and rng.random() < 0.1:
                payload = bytes([rng.choice([L.END, L.EPF, L.SDP, L.SHP, L.EDB, 0])]) * n      # K-symbol look-alikes as data
            dw0 = L.HP_TYPE_DATA | (rng.getrandbits(27) << 5)
            dw1 = (rng.getrandbits(16)) | (n << 16)
            op.update({"dw0": dw0, "dw1": dw1, "dw2": rng.getrandbits(32), "payload": payload.hex()})
            if rng.random() < 0.15:
                op["dl"] = 1
        else:
            t = rng.choice([L.HP_TYPE_LINK_MANAGEMENT, L.HP_TYPE_TRANSACTION, L.HP_TYPE_TRANSACTION, L.HP_TYPE_ITP,
                            rng.choice([1, 2, 3, 5, 6, 7, 9, 16, 20, 28, 31])])
            op.update({"dw0": t | (rng.getrandbits(27) << 5), "dw1": rng.getrandbits(32), "dw2": rng.getrandbits(32), "payload": None,
                       "dl": int(rng.random() < 0.15), "stray": int(rng.random() < 0.25)})
        ops.append(op)
    return {"engine": ENGINE, "config": {"ready": _ready_pattern(rng)}, "ops": ops}


# ------------------------------------------------------------------------------------------------
def _bench():
    def factory():
        from amaranth import Module, Elaboratable, Cat
        from luna.gateware.usb.usb3.link.transmitter import RawPacketTransmitter
        from luna.gateware.usb.usb3.link.receiver import RawHeaderPacketReceiver
        from luna.gateware.usb.usb3.link.data import DataPacketReceiver

        class Loop(Elaboratable):
            def __init__(self):
                self.tx = RawPacketTransmitter()
                self.hrx = RawHeaderPacketReceiver()
                self.drx = DataPacketReceiver()

            def elaborate(self, platform):
                m = Module()
                m.submodules.tx = tx = self.tx
                m.submodules.hrx = hrx = self.hrx
                m.submodules.drx = drx = self.drx
                for rx in (hrx, drx):
                    m.d.comb += [rx.sink.valid.eq(tx.source.valid & tx.source.ready), rx.sink.data.eq(tx.source.data),
                                 rx.sink.ctrl.eq(tx.source.ctrl)]
                return m

        dut = Loop()
        tx, hrx, drx = dut.tx, dut.hrx, dut.drx
        ins = {"generate": tx.generate, "src_ready": tx.source.ready, "expected_sequence": hrx.expected_sequence,
               "ds_valid": tx.data_sink.valid, "ds_data": tx.data_sink.data, "ds_first": tx.data_sink.first, "ds_last": tx.data_sink.last}
        for f in HDR_FIELDS:
            ins["h_" + f] = getattr(tx.header, f)
        outs = {"src_valid": tx.source.valid, "src_data": tx.source.data, "src_ctrl": tx.source.ctrl, "done": tx.done,
                "ds_ready": tx.data_sink.ready,
                "hrx_new": hrx.new_packet, "hrx_bad": hrx.bad_packet, "hrx_badseq": hrx.bad_sequence,
                "drx_new_header": drx.new_header, "drx_valid": drx.source.valid, "drx_data": drx.source.data,
                "drx_first": drx.source.first, "drx_last": drx.source.last, "good": drx.packet_good, "bad": drx.packet_bad}
        for f in HDR_FIELDS:
            outs["hrx_" + f] = getattr(hrx.packet, f)
        for n, w in type(drx.header).get_layout():
            outs["dh_" + n] = getattr(drx.header, n)
        _DH_LAYOUT[:] = [(n, w) for n, w in type(drx.header).get_layout()]
        return make_bench(dut, clocks={"ss": 1 / 125e6}, main="ss", ins=ins, outs=outs)
    return cached_bench(("c36",), factory)


def _hdr_pins(op, wig=False):
    if wig:
        return {"h_dw0": op["dw0"] ^ 0xFFFFFFFF, "h_dw1": op["dw1"] ^ 0x55555555, "h_dw2": op["dw2"] ^ 0xAAAAAAAA,
                "h_sequence_number": op["seq"] ^ 5, "h_dw3_reserved": op["rsvd"] ^ 7, "h_hub_depth": op["hub"] ^ 3,
                "h_delayed": op["dl"] ^ 1, "h_deferred": op["df"] ^ 1, "h_crc16": op["junk16"] ^ 0xFFFF, "h_crc5": op["junk5"] ^ 0x1F}
    return {"h_dw0": op["dw0"], "h_dw1": op["dw1"], "h_dw2": op["dw2"], "h_sequence_number": op["seq"], "h_dw3_reserved": op["rsvd"],
            "h_hub_depth": op["hub"], "h_delayed": op["dl"], "h_deferred": op["df"], "h_crc16": op["junk16"], "h_crc5": op["junk5"]}


def expected_words(op):
    ws = L.header_words(op["dw0"], op["dw1"], op["dw2"], op["seq"], op["rsvd"], op["hub"], op["dl"], op["df"])
    if op["payload"] is not None:
        ws = ws + L.dpp_words(bytes.fromhex(op["payload"]), abort=bool(op["dl"]))
    return ws


class _Actor:
    def __init__(self, scn, viol, probes):
        self.ops = scn["ops"]
        self.ready = L.Pattern(scn["config"]["ready"])
        self.viol, self.probes = viol, probes
        self.i = -1
        self.phase = "start"
        self.pins = {"generate": 0}
        self.ready_now = 1
        self.wire = []            # (t, data, ctrl, op index)
        self.done_cycles = []
        self.issue = {}           # op index -> issue cycle
        self.finish = {}          # op index -> done cycle
        self.beats = []
        self.beat_i = 0
        self.beat_from = None
        self.presenting = False
        self.events = []          # receiver events: (t, kind, payload)
        self.gap_left = 0
        self.busy_ready = 0
        self.finished_at = None
        self.stalls = {"hdr": 0, "payload": 0, "crc": 0}
        self.dead = False
        self.seq_at = None

    def _issue(self, t):
        self.i += 1
        if self.i >= len(self.ops):
            self.phase = "finished"
            self.finished_at = t
            self.pins = {"generate": 0}
            return
        op = self.ops[self.i]
        self.pins = {"generate": 1}
        self.pins.update(_hdr_pins(op))
        self.seq_at = (t + 3, op["seq"])      # the header receiver checks the previous packet up to 2 cycles after its last word
        self.phase = "issued"
        self.issue[self.i] = t
        self.busy_ready = 0
        if op["payload"] is not None and not op["dl"]:
            self.beats = L.payload_stream_words(bytes.fromhex(op["payload"]))
        elif op["payload"] is None and op.get("stray"):
            self.beats = [(0xDEADBEEF, 0xF, 1, 1)]
            self.probes["stray_payload_on_non_data_header"] += 1
        else:
            self.beats = []
        self.beat_i = 0
        self.beat_from = t + op["lead"]

    def drive(self, t):
        if self.phase == "start":
            if t >= 2:
                self._issue(t)
        elif self.phase == "issued":
            op = self.ops[self.i]
            if op["mode"] == "pulse":
                self.pins = {"generate": 0}
            else:
                self.pins = {"generate": 1}
            if op["wiggle"]:
                self.pins.update(_hdr_pins(op, wig=True))
                self.probes["header_changed_mid_packet"] += 1
            self.phase = "wait_done"
        elif self.phase == "after_done":
            op = self.ops[self.i]
            if op["gap"] == 0:
                if op["mode"] == "hold" and self.i + 1 < len(self.ops):
                    self.probes["held_generate_back_to_back"] += 1
                self._issue(t)
            else:
                self.pins = {"generate": 0}
                self.gap_left = op["gap"]
                self.phase = "gap"
        elif self.phase == "gap":
            self.gap_left -= 1
            if self.gap_left <= 0:
                self._issue(t)
        d = dict(self.pins)
        self.pins = {}
        if self.seq_at and t >= self.seq_at[0]:
            d["expected_sequence"] = self.seq_at[1]
            self.seq_at = None
        self.ready_now = self.ready.at(t)
        d["src_ready"] = self.ready_now
        # payload source
        if self.phase in ("issued", "wait_done") and self.beat_i < len(self.beats) and t >= self.beat_from:
            data, valid, first, last = self.beats[self.beat_i]
            d.update({"ds_valid": valid, "ds_data": data, "ds_first": first, "ds_last": last})
            self.presenting = True
        else:
            d.update({"ds_valid": 0, "ds_data": 0x5A5A5A5A, "ds_first": 0, "ds_last": 0})
            self.presenting = False
        return d

    def observe(self, t, o):
        if self.presenting and o["ds_ready"]:
            self.beat_i += 1
        if o["src_valid"]:
            if self.ready_now:
                self.wire.append((t, o["src_data"], o["src_ctrl"], self.i))
            else:
                k = sum(1 for w in self.wire if w[3] == self.i)
                op = self.ops[self.i] if 0 <= self.i < len(self.ops) else None
                if k < 5:
                    self.stalls["hdr"] += 1
                elif op and op["payload"] is not None and not op["dl"]:
                    n = len(bytes.fromhex(op["payload"]))
                    nw = (n + 3) // 4
                    # words of this packet: 5 header, DPPSTART, payload words (the last may hold CRC bytes), CRC/END words
                    if k - 6 == nw:
                        self.stalls["crc"] += 1
                    else:
                        self.stalls["payload"] += 1
        if o["done"]:
            self.done_cycles.append(t)
        for k in ("hrx_new", "hrx_bad", "hrx_badseq", "good", "bad"):
            if o[k]:
                if k == "hrx_new":
                    self.events.append((t, k, {f: o["hrx_" + f] for f in HDR_FIELDS}))
                elif k in ("good", "bad"):
                    v, sh = 0, 0
                    for n, w in _DH_LAYOUT:
                        v |= o["dh_" + n] << sh
                        sh += w
                    self.events.append((t, k, v))
                else:
                    self.events.append((t, k, None))
        if o["drx_valid"]:
            self.events.append((t, "bytes", (o["drx_data"], o["drx_valid"], o["drx_first"], o["drx_last"])))
        if self.phase in ("issued", "wait_done"):
            if self.ready_now:
                self.busy_ready += 1
                op = self.ops[self.i]
                n = len(bytes.fromhex(op["payload"])) if op["payload"] else 0
                if self.busy_ready > 40 + n // 2 and not self.dead:
                    self.viol.add("C36.progress", t, f"packet {self.i} requested at cycle {self.issue[self.i]} not finished after "
                                  f"{self.busy_ready} cycles with the PHY ready", mode=op["mode"], data=op["payload"] is not None)
                    self.dead = True
                    return True
            if o["done"]:
                self.finish[self.i] = t
                self.phase = "after_done"
        if self.phase == "finished" and t > self.finished_at + 8:
            return True
        return False


def _drx_header_value(op, exp_dw3):
    """ the 128-bit header record the data receiver should expose: dw0 | dw1 << 32 | dw2 << 64 | dw3 << 96 """
    return op["dw0"] | (op["dw1"] << 32) | (op["dw2"] << 64) | (exp_dw3 << 96)


def run(scn):
    bench = _bench()
    viol = Violations()
    probes = {p: 0 for p in PROBES}
    a = _Actor(scn, viol, probes)
    ops = scn["ops"]
    rlen = len(scn["config"]["ready"])
    max_cycles = 80 + sum((60 + len(op["payload"] or "") // 4) * (rlen + 1) + op["gap"] for op in ops)
    log = bench.run([a], max_cycles)
    if not viol and a.phase != "finished":
        raise RuntimeError(f"script did not finish within {max_cycles} cycles (phase {a.phase}, op {a.i}/{len(ops)})")
    stalled = rlen > 1

    # ---- wire oracle, packet by packet ----
    if not viol:
        for i, op in enumerate(ops):
            exp = expected_words(op)
            got = [(d, c) for _, d, c, k in a.wire if k == i]
            times = [t for t, _, _, k in a.wire if k == i]
            is_data = op["payload"] is not None
            n = len(bytes.fromhex(op["payload"])) if is_data else 0
            for k in range(max(len(exp), len(got))):
                e = exp[k] if k < len(exp) else None
                g = got[k] if k < len(got) else None
                if e != g:
                    if k < 5 or not is_data:
                        rule = "C36.header_words"
                    elif op["dl"]:
                        rule = "C36.edb_when_delayed"
                    else:
                        rule = "C36.dpp_words"
                    t = times[k] if k < len(times) else (times[-1] if times else a.issue.get(i, 0))
                    viol.add(rule, t, f"packet {i} ({'data, %d bytes' % n if is_data else 'non-data'}{', delayed' if op['dl'] else ''}): "
                             f"accepted word #{k} is {g and (hex(g[0]), bin(g[1]))}, expected {e and (hex(e[0]), bin(e[1]))}",
                             word=k if k < 6 else ("payload" if k < 6 + (n + 3) // 4 else "tail"), len_mod4=n % 4 if is_data else -1,
                             delayed=bool(op["dl"]))
                    break
            if viol:
                break
            if times and a.finish.get(i) != times[-1]:
                viol.add("C36.done", a.finish.get(i, times[-1]), f"packet {i}: done at cycle {a.finish.get(i)}, last word accepted at {times[-1]}",
                         data=is_data)
                break
        if not viol:
            exp_done = sorted(a.finish.values())
            if a.done_cycles != exp_done:
                extra = sorted(set(a.done_cycles) - set(exp_done))
                viol.add("C36.done", extra[0] if extra else 0, f"done strobes at {a.done_cycles}, packets finished at {exp_done}", data=False)

    # ---- receivers ----
    if not viol:
        for i, op in enumerate(ops):
            words_of_pkt = [(t, d, c) for t, d, c, k in a.wire if k == i]
            t0 = words_of_pkt[0][0]
            # header receiver: strobes between HPSTART and 3 cycles after DW3
            ev = [e for e in a.events if words_of_pkt[4][0] < e[0] <= words_of_pkt[4][0] + 3 and e[1].startswith("hrx")]
            exp = expected_words(op)
            exp_dw3 = exp[4][0]
            is_data = op["payload"] is not None
            payload = bytes.fromhex(op["payload"]) if is_data else b""
            n = len(payload)
            prior_zlp = any(o["payload"] == "" for o in ops[:i])
            shape = {"receiver": "header", "cause": "other"}
            news = [e for e in ev if e[1] == "hrx_new"]
            bads = [e for e in ev if e[1] in ("hrx_bad", "hrx_badseq")]
            want = {"dw0": op["dw0"], "dw1": op["dw1"], "dw2": op["dw2"], "crc16": exp_dw3 & 0xFFFF, "sequence_number": op["seq"],
                    "dw3_reserved": op["rsvd"], "hub_depth": op["hub"], "delayed": op["dl"], "deferred": op["df"], "crc5": exp_dw3 >> 27}
            if len(news) != 1 or bads:
                viol.add("C36.roundtrip", (news + bads + [(t0,)])[0][0], f"packet {i}: header receiver strobed new_packet {len(news)} times, "
                         f"bad_packet/bad_sequence {[(e[0], e[1]) for e in bads]} (expected exactly one new_packet)", **shape)
                break
            if news[0][2] != want:
                viol.add("C36.roundtrip", news[0][0], f"packet {i}: header receiver returned {news[0][2]}, sent {want}", **shape)
                break
            if not is_data or op["dl"]:
                continue
            shape["receiver"] = "data"
            # data receiver: everything between DPPSTART and 2 cycles after the last word of the packet
            ev = [e for e in a.events if words_of_pkt[5][0] <= e[0] <= words_of_pkt[-1][0] + 2 and not e[1].startswith("hrx")]
            # was the stream stalled (not-valid word) right before the word that completes the CRC?
            nw = (n + 3) // 4
            crc_word_k = 6 + nw                     # index of the word after the last payload word
            gap_before_crc = crc_word_k < len(words_of_pkt) and words_of_pkt[crc_word_k][0] - words_of_pkt[crc_word_k - 1][0] > 1
            # classification of the two ways the unfixed DataPacketReceiver is known to fail (C40): it never leaves CHECK_CRC32 after
            # a zero-length payload, and it does not wait for a valid word in CHECK_CRC32
            shape["cause"] = "after_zero_length_dpp" if prior_zlp else ("stall_before_crc_word" if gap_before_crc else "other")
            verdicts = [e for e in ev if e[1] in ("good", "bad")]
            t_last_payload = words_of_pkt[5 + nw][0] if n else words_of_pkt[5][0]
            if not verdicts:
                viol.add("C36.roundtrip", t_last_payload, f"packet {i} ({n} bytes): data receiver gave no verdict", verdict="none", **shape)
                break
            v = verdicts[0]
            if v[1] != "good":
                viol.add("C36.roundtrip", v[0], f"packet {i} ({n} bytes): data receiver's first verdict is packet_bad (cycle {v[0]}); "
                         f"stall before CRC word: {gap_before_crc}", verdict="bad", **shape)
                break
            if v[0] < t_last_payload:
                viol.add("C36.roundtrip", v[0], f"packet {i}: verdict at {v[0]} before the last payload word at {t_last_payload}", verdict="early", **shape)
                break
            if v[2] != _drx_header_value(op, exp_dw3):
                viol.add("C36.roundtrip", v[0], f"packet {i}: data receiver header {hex(v[2])}, sent {hex(_drx_header_value(op, exp_dw3))}",
                         verdict="header", **shape)
                break
            got = bytearray()
            okmask = True
            for e in ev:
                if e[1] == "bytes" and e[0] <= v[0]:
                    data, mask, first, last = e[2]
                    if mask not in (1, 3, 7, 15):
                        okmask = False
                    for b in range(4):
                        if mask & (1 << b):
                            got.append((data >> (8 * b)) & 0xFF)
            if bytes(got) != payload or not okmask:
                viol.add("C36.roundtrip", v[0], f"packet {i}: data receiver delivered {bytes(got).hex()} (mask ok {okmask}), payload sent {payload.hex()}",
                         verdict="payload", **shape)
                break

    # ---- probes / coverage ----
    lens = set()
    for op in ops:
        if op["payload"] is None:
            probes["non_data_header"] += 1
        else:
            n = len(op["payload"]) // 2
            if op["dl"]:
                probes["delayed_data_header"] += 1
            elif n == 0:
                probes["zlp"] += 1
            else:
                probes[f"len_mod4_{n % 4}"] += 1
                if n >= 64:
                    probes["len_ge_64"] += 1
            lens.add(("z" if n == 0 else n % 4, bool(op["dl"])))
    probes["stall_in_header"] += a.stalls["hdr"]
    probes["stall_in_payload"] += a.stalls["payload"]
    probes["stall_before_crc_word"] += a.stalls["crc"]
    faults = {"ready_stall": sum(a.stalls.values()), "delayed_abort": probes["delayed_data_header"],
              "header_changed_mid_packet": probes["header_changed_mid_packet"]}
    sig = hashlib.blake2b(repr((sorted(log.fsm_vectors), sorted(map(str, lens)), [k for k, v in sorted(a.stalls.items()) if v])).encode(),
                          digest_size=8).hexdigest()
    return {"violations": viol.items, "cycles": log.cycles, "faults": faults, "probes": probes, "sig": sig,
            "nontrivial": any(op["payload"] for op in ops), "digest": log.digest, "fsm": len(log.fsm_vectors)}
