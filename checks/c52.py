"""
C52 -- the I2C initiator follows the I2C bus protocol.

DUT: luna.gateware.interface.i2c.I2CInitiator (+ I2CBusDriver) (real), standalone, domain "sync".
Actors: models.periph_i2c.I2CEnv = open-drain bus (wired-AND, one cycle of wire delay) + scripted I2C target (ACK/NAK,
read data, clock stretching of literal lengths after any SCL falling edge) + operation driver (issues start / stop /
write / read when busy is low; tagged extra strobes while busy).
Oracle: bus monitor over the recorded waveform, per operation window.
"""

import hashlib

from dsim.kernel import make_bench, cached_bench, Violations
from models.periph_i2c import I2CEnv

PROPERTY = "C52"
ENGINE = "periph"
CLOCK_HZ = 60e6
RULES = {
    "C52.sda_stable": "SDA as driven by the initiator changes while SCL is high only for the one START (fall) of a requested "
                      "start or the one STOP (rise) of a requested stop",
    "C52.start_stop": "a requested start / stop produces exactly one START / STOP condition on the bus",
    "C52.write": "a write produces nine SCL pulses: eight data bits MSB first (valid throughout SCL high), SDA released in the "
                 "ninth, and ack_o reports whether the target pulled SDA low in the ninth",
    "C52.read": "a read produces nine SCL pulses with SDA released during the first eight, data_o equals the bits the target "
                "presented (MSB first), and the ninth carries the requested acknowledge",
    "C52.stretch": "while the target holds SCL low the initiator does not advance: no SDA change, every SCL high phase on the "
                   "bus lasts at least a quarter period, no clock pulse is lost",
    "C52.busy": "an operation strobed while busy is low is performed (busy rises, the bus activity follows) and busy falls "
                "again within a bounded time",
}
PROBES = ["repeated_start", "start_while_target_acks", "stop_after_read_ack", "write_nak", "read_ack", "read_nak",
          "stretch_applied", "stretch_longer_than_quarter", "stretch_in_start_stop", "target_data_late_in_stretch", "strobe_same_cycle_busy_falls",
          "spurious_strobe_while_busy", "byte_without_start", "scl_push_pull", "no_clk_stretch_config", "period_not_multiple_of_4",
          "bytes_checked", "ops_performed", "data_i_ack_i_changed_after_strobe"]
META = {
    "components_real": ["luna.gateware.interface.i2c.I2CInitiator", "luna.gateware.interface.i2c.I2CBusDriver (incl. FFSynchronizers)"],
    "components_stubbed": ["open-drain bus + I2C target + operation driver (models.periph_i2c.I2CEnv)"],
    "assumptions": ["the bus wire adds one cycle of delay to the initiator's drivers (inherent to the kernel: pins for cycle t are "
                    "decided from outputs of cycle t-1); therefore period_cyc >= 8: with period_cyc 4..7 the design samples SDA "
                    "exactly two synchroniser cycles after releasing it and has no margin for any wire delay",
                    "the target changes SDA only while SCL is low (1-2 cycles after the falling edge) and stretches SCL only by "
                    "holding it after a falling edge; it stretches only when clk_stretch=True and SCL is open-drain",
                    "one strobe at a time; data_i/ack_i valid in the strobe cycle (in half of the byte operations they change to the complement right after it)",
                    "strobes while busy (tagged fault) are placed where every implementation is certainly busy (right after the "
                    "operation started) and are expected to be ignored as documented",
                    "liveness bound per operation: 3x(nominal duration + total stretch) + 60 cycles"],
    "rule": "period_cyc 8..40, clk_stretch on/off, open-drain or push-pull SCL pad; 3-12 operations in arbitrary order "
            "(transaction-shaped sequences and random ones), target ACK/NAK, read data, literal stretch lengths on chosen "
            "falling edges, literal issue delays after busy falls (0 = immediately), extra strobes while busy",
}
TIERS = {"quick": {"runs": 6000, "wall": 70}, "thorough": {"runs": 24000, "wall": 900}}


def gen(rng, tier, index):
    period = rng.choice([8, 8, 9, 10, 11, 12, 12, 13, 15, 16, 16, 17, 20, 24, 32, 40, rng.randint(8, 40)])
    push_pull = rng.random() < 0.15
    clk_stretch = rng.random() < (0.3 if push_pull else 0.7)
    can_stretch = clk_stretch and not push_pull
    q = period // 4 + 1
    ops = []
    style = rng.choice(["transactions", "transactions", "random"])
    budget = 9 if tier == "quick" else 24
    if style == "transactions":
        while len(ops) < budget - 2:
            ops.append({"op": "start"})
            ops.append({"op": "write", "data": rng.getrandbits(8), "ack": int(rng.random() < 0.8)})
            k = rng.random()
            if k < 0.35:
                for _ in range(rng.randint(1, 2)):
                    ops.append({"op": "write", "data": rng.getrandbits(8), "ack": int(rng.random() < 0.8)})
            elif k < 0.7:
                n = rng.randint(1, 2)
                for i in range(n):
                    ops.append({"op": "read", "data": rng.getrandbits(8), "ack": int(i < n - 1 or rng.random() < 0.2)})
            else:
                ops.append({"op": "write", "data": rng.getrandbits(8), "ack": 1})
                ops.append({"op": "start"})
                ops.append({"op": "write", "data": rng.getrandbits(8), "ack": 1})
                ops.append({"op": "read", "data": rng.getrandbits(8), "ack": 0})
            if rng.random() < 0.8:
                ops.append({"op": "stop"})
            if rng.random() < 0.4:
                break
    else:
        for _ in range(rng.randint(3, budget)):
            k = rng.choice(["start", "stop", "write", "write", "read", "read"])
            op = {"op": k}
            if k in ("write", "read"):
                op["data"] = rng.choice([rng.getrandbits(8), 0x00, 0xFF, 0x80, 0x01, 0x55, 0xAA])
                op["ack"] = rng.getrandbits(1)
            ops.append(op)
    ops = ops[:budget + 3]
    for op in ops:
        op["delay"] = rng.choice([0, 0, 0, 1, 2, 5, rng.randint(0, 3 * q)])
        op["sda_delay"] = rng.getrandbits(1)
        if can_stretch and rng.random() < 0.5:
            n_edges = 9 if op["op"] in ("write", "read") else 1
            st = {}
            for _ in range(rng.randint(1, 3)):
                st[str(rng.randint(1, n_edges))] = rng.choice([1, 2, 3, q, 2 * q, 3 * q + 1, 4 * q + 2, 8 * q, rng.randint(1, 6 * q)])
            op["stretch"] = st
            if rng.random() < 0.5:
                op["late_data"] = 1
        if rng.random() < 0.12:
            lim = (q - 1) if op["op"] in ("start", "stop") else 20 * q
            if lim >= 1:
                op["spurious"] = [[rng.randint(1, lim), rng.choice(["start", "stop", "write", "read"])]
                                  for _ in range(rng.randint(1, 2))]
    for op in ops:
        # data_i / ack_i are requested *with the strobe*: in half of the byte operations the requester presents the
        # complement from the next cycle on (as LUNA's own I2CRegisterInterface does with ack_i)
        if op["op"] in ("write", "read") and rng.random() < 0.5:
            op["params_after"] = "invert"
    return {"engine": ENGINE, "config": {"period_cyc": period, "clk_stretch": clk_stretch, "scl_push_pull": push_pull}, "ops": ops}


def _bench(cfg):
    from amaranth.hdl.rec import Record, DIR_FANIN, DIR_FANOUT
    from luna.gateware.interface.i2c import I2CInitiator, I2CBus
    period, cs, pp = cfg["period_cyc"], cfg["clk_stretch"], cfg["scl_push_pull"]

    def factory():
        if pp:
            pads = Record([("scl", [("o", 1, DIR_FANOUT)]),
                           ("sda", [("i", 1, DIR_FANIN), ("o", 1, DIR_FANOUT), ("oe", 1, DIR_FANOUT)])])
        else:
            pads = I2CBus()
        dut = I2CInitiator(pads=pads, period_cyc=period, clk_stretch=cs)
        ins = {"sda_i": pads.sda.i, "start": dut.start, "stop": dut.stop, "write": dut.write, "read": dut.read,
               "data_i": dut.data_i, "ack_i": dut.ack_i}
        outs = {"sda_oe": pads.sda.oe, "busy": dut.busy, "ack_o": dut.ack_o, "data_o": dut.data_o}
        if pp:
            outs["scl_o"] = pads.scl.o
        else:
            ins["scl_i"] = pads.scl.i
            outs["scl_oe"] = pads.scl.oe
        return make_bench(dut, clocks={"sync": 1 / 60e6}, main="sync", ins=ins, outs=outs)
    return cached_bench(("c52", period, cs, pp), factory)


def run(scn):
    cfg = scn["config"]
    period, clk_stretch, pp = cfg["period_cyc"], cfg["clk_stretch"], cfg["scl_push_pull"]
    ops = scn["ops"]
    q = period // 4 + 1
    bench = _bench(cfg)
    viol = Violations()
    probes = {p: 0 for p in PROBES}

    def limit(op):
        quarters = 40 if op["op"] in ("write", "read") else 6
        st = sum((op.get("stretch") or {}).values())
        return 3 * (quarters * (q + 4) + st) + 60
    env = I2CEnv(ops, scl_open_drain=not pp, limit_fn=limit)
    max_cycles = sum(limit(op) + op.get("delay", 0) + 4 for op in ops) + 200
    init = {"sda_i": 1}
    if not pp:
        init["scl_i"] = 1
    log = bench.run([env], max_cycles=max_cycles, init=init)
    n = len(env.busy)
    problems = []       # (cycle, rule, msg, shape)
    classes = set()

    def add(c, rule, msg, **shape):
        problems.append((c, rule, msg, shape))

    stretched_any = any(op.get("stretch") for op in ops) and clk_stretch and not pp
    if env.stuck is not None:
        k = env.k
        if k < 0:
            add(env.stuck, "C52.busy", "busy never went low after reset", kind="stuck_at_reset", op="none")
        else:
            add(env.stuck, "C52.busy", f"operation #{k} ({ops[k]['op']}) strobed in cycle {env.windows[k][0]} is still busy after "
                f"{env.stuck - env.windows[k][0]} cycles (bound {limit(ops[k])})", kind="stuck", op=ops[k]["op"],
                stretched=bool(ops[k].get("stretch")))
    elif env.finished_at is None:
        raise RuntimeError("script did not finish")

    # bus-level view of the initiator's own drivers (one cycle of wire delay)
    dut_scl = [1] + [1 - x for x in env.scl_oe[:-1]]
    dut_sda = [1] + [1 - x for x in env.sda_oe[:-1]]
    bus_scl, bus_sda = env.bus_scl, env.bus_sda

    def window_of(c):
        for k, (s, d) in enumerate(env.windows):
            if s < c and (d is None or c <= d + 1):
                return k
        return None

    # ---------------- global: SDA (initiator) changes while SCL high ----------------
    cond = {}           # op index -> list of (cycle, "START"/"STOP")
    for c in range(1, n):
        if dut_sda[c] != dut_sda[c - 1] and bus_scl[c] and bus_scl[c - 1]:
            k = window_of(c)
            kind = "START" if dut_sda[c] == 0 else "STOP"
            want = {"start": "START", "stop": "STOP"}.get(ops[k]["op"]) if k is not None else None
            if want != kind or len(cond.get(k, ())) >= 1:
                add(c, "C52.sda_stable", f"initiator {'pulls' if kind == 'START' else 'releases'} SDA in cycle {c} while SCL is high "
                    f"during operation #{k} ({ops[k]['op'] if k is not None else 'idle'})"
                    + (" for the second time" if want == kind else ""), kind=kind, op=ops[k]["op"] if k is not None else "idle",
                    stretched=bool(k is not None and ops[k].get("stretch")))
                break
            cond.setdefault(k, []).append((c, kind))
    # ---------------- global: nothing moves while the target holds SCL ----------------
    if clk_stretch and not pp:
        for c in range(1, n):
            if env.tgt_scl[c] and dut_scl[c] and dut_scl[c - 1] and env.tgt_scl[c - 1] and dut_sda[c] != dut_sda[c - 1]:
                add(c, "C52.stretch", f"initiator changes SDA in cycle {c} while it has released SCL and the target still holds it low",
                    kind="sda_change_during_stretch", op=ops[window_of(c)]["op"] if window_of(c) is not None else "idle")
                break

    # ---------------- per operation ----------------
    for k, (s, d) in enumerate(env.windows):
        op = ops[k]
        kind = op["op"]
        if d is None:
            break
        stretched = bool(op.get("stretch")) and clk_stretch and not pp
        if d == s + 1 or not any(env.busy[s + 1:d]):
            add(s + 1, "C52.busy", f"operation #{k} ({kind}) strobed in cycle {s} while busy was low, but busy did not rise",
                kind="ignored", op=kind, stretched=stretched)
            break
        probes["ops_performed"] += 1
        lo, hi = s + 1, min(n - 1, d + 1)
        rises = [c for c in range(max(1, lo), hi + 1) if bus_scl[c] and not bus_scl[c - 1]]
        falls = [c for c in range(max(1, lo), hi + 1) if not bus_scl[c] and bus_scl[c - 1]]
        if kind in ("start", "stop"):
            got = cond.get(k, [])
            if len(got) != 1:
                add(d, "C52.start_stop", f"operation #{k} ({kind}, cycles {s}..{d}) produced {len(got)} "
                    f"{'START' if kind == 'start' else 'STOP'} conditions; previous operation: "
                    f"{ops[k - 1]['op'] if k else 'none'}, strobed {s - (env.windows[k - 1][1] if k else 0)} cycle(s) after busy fell",
                    kind="count", op=kind, stretched=stretched, prev_op=ops[k - 1]["op"] if k else "none",
                    strobe_right_after_busy_fell=bool(k > 0 and s - env.windows[k - 1][1] <= 1))
                break
            if kind == "start":
                if rises:
                    probes["repeated_start"] += 1
                    classes.add("rep_start")
                if env.tgt_sda[s]:
                    probes["start_while_target_acks"] += 1
                    classes.add("start_vs_ack")
            if stretched and falls:
                probes["stretch_in_start_stop"] += 1
            continue
        # ---- byte operations
        rule = "C52.write" if kind == "write" else "C52.read"
        if len(rises) != 9:
            add(d, "C52.stretch" if stretched else rule, f"operation #{k} ({kind}, cycles {s}..{d}) produced {len(rises)} SCL pulses "
                f"on the bus instead of 9", kind="pulse_count", op=kind, stretched=stretched)
            break
        bad = False
        for i, r in enumerate(rises):
            f = next((c for c in falls if c > r), hi + 1)        # end of this high phase
            high = range(r, f)
            if clk_stretch and not pp and len(high) < q and f <= hi:
                add(f, "C52.stretch", f"operation #{k} ({kind}) bit {i}: SCL high on the bus only from cycle {r} to {f - 1} "
                    f"({len(high)} cycles, quarter period {q})", kind="short_high", op=kind, stretched=stretched)
                bad = True
                break
            if kind == "write":
                if i < 8:
                    bit = (op["data"] >> (7 - i)) & 1
                    wrong = [c for c in high if dut_sda[c] != bit]
                    if wrong:
                        add(wrong[0], rule, f"write #{k} of 0x{op['data']:02x}: bit {i} (MSB first) should be {bit} but the initiator "
                            f"{'pulls' if bit else 'releases'} SDA in cycle {wrong[0]} of the SCL high phase {r}..{f - 1}",
                            kind="data_bit", op=kind, stretched=stretched, bit=min(i, 1))
                        bad = True
                        break
                else:
                    wrong = [c for c in high if dut_sda[c] != 1]
                    if wrong:
                        add(wrong[0], rule, f"write #{k}: initiator drives SDA during the acknowledge clock (cycle {wrong[0]})",
                            kind="ack_slot_driven", op=kind, stretched=stretched)
                        bad = True
                        break
            else:
                if i < 8:
                    wrong = [c for c in high if dut_sda[c] != 1]
                    if wrong:
                        add(wrong[0], rule, f"read #{k}: initiator drives SDA during data bit {i} (cycle {wrong[0]})",
                            kind="data_slot_driven", op=kind, stretched=stretched)
                        bad = True
                        break
                else:
                    want = 0 if op["ack"] else 1
                    wrong = [c for c in high if dut_sda[c] != want]
                    if wrong:
                        add(wrong[0], rule, f"read #{k} with ack_i={op['ack']}: initiator SDA={dut_sda[wrong[0]]} in the acknowledge "
                            f"clock (cycle {wrong[0]}), expected {want}", kind="ack_bit", op=kind, stretched=stretched)
                        bad = True
                        break
        if bad:
            break
        if kind == "write":
            if env.ack_o[d] != op["ack"]:
                add(d, rule, f"write #{k}: ack_o={env.ack_o[d]} after the operation, the target {'ACKed' if op['ack'] else 'NAKed'}",
                    kind="ack_o", op=kind, stretched=stretched)
                break
            if not op["ack"]:
                probes["write_nak"] += 1
                classes.add("nak")
        else:
            if env.data_o[d] != op["data"]:
                add(d, rule, f"read #{k}: data_o=0x{env.data_o[d]:02x}, the target presented 0x{op['data']:02x}",
                    kind="data_o", op=kind, stretched=stretched)
                break
            probes["read_ack" if op["ack"] else "read_nak"] += 1
            classes.add("read_ack" if op["ack"] else "read_nak")
        probes["bytes_checked"] += 1
        if k == 0 or ops[k - 1]["op"] == "stop":
            probes["byte_without_start"] += 1
        if stretched:
            # did a stretch actually delay a rising edge?
            held = [c for c in range(lo, hi) if env.tgt_scl[c] and dut_scl[c]]
            if held:
                probes["stretch_applied"] += 1
                classes.add("stretch")
                if len(held) > q:
                    probes["stretch_longer_than_quarter"] += 1
                    classes.add("long_stretch")
    for k in range(1, len(env.windows)):
        if ops[k]["op"] == "stop" and ops[k - 1]["op"] == "read" and ops[k - 1]["ack"]:
            probes["stop_after_read_ack"] += 1
        if env.windows[k][0] == (env.windows[k - 1][1] or -5) + 1:
            probes["strobe_same_cycle_busy_falls"] += 1
    probes["spurious_strobe_while_busy"] = env.spurious_fired
    probes["data_i_ack_i_changed_after_strobe"] = env.params_changed
    probes["target_data_late_in_stretch"] = env.late_data_used
    if pp:
        probes["scl_push_pull"] += 1
    if not clk_stretch:
        probes["no_clk_stretch_config"] += 1
    if period % 4:
        probes["period_not_multiple_of_4"] += 1
    if problems:
        c, rule, msg, shp = min(problems, key=lambda p: p[0])
        viol.add(rule, c, f"{msg} [period_cyc={period}, clk_stretch={clk_stretch}, push_pull_scl={pp}]", **shp)
    faults = {"clock_stretch": probes["stretch_applied"], "target_nak": probes["write_nak"],
              "spurious_strobe": env.spurious_fired}
    sig = hashlib.blake2b(repr((period, clk_stretch, pp, sorted(classes), sorted(log.fsm_vectors))).encode(),
                          digest_size=8).hexdigest()
    return {"violations": viol.items, "cycles": log.cycles, "faults": faults, "probes": probes, "sig": sig,
            "nontrivial": probes["bytes_checked"] > 0, "digest": log.digest, "fsm": len(log.fsm_vectors)}


def shrink_candidates(scn):
    import copy
    for i, op in enumerate(scn["ops"]):
        for key in ("stretch", "spurious", "late_data"):
            if op.get(key):
                cand = copy.deepcopy(scn)
                del cand["ops"][i][key]
                yield cand
        if op.get("delay"):
            cand = copy.deepcopy(scn)
            cand["ops"][i]["delay"] = 0
            yield cand
