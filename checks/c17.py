"""
C17 -- status (signal) IN endpoints report the latched value consistently.

DUT: the complete USBDevice (V1 / V2 timing) with a standard control endpoint, a bulk IN endpoint (ep 1, always has
data: traffic that earns ACKs on another endpoint) and USBSignalInEndpoint on ep 3 (width 1..40, little/big endian).
The host polls ep 3 while the monitored signal changes at literal cycles (before the poll, inside the response
window, while the answer is on the wire); handshakes are sent, withheld or garbled; traffic for other endpoints and
other devices is interleaved.  The oracle is a three-variable reference model (toggle, pending retry, signal history).
"""

import hashlib
import random

from dsim.kernel import Violations
from models.usb2_wire import gen_idle_data
from models import usb2
from models.usb2 import UTMIHost, token_packet, data_packet, sof_packet, handshake_packet, parse_token
from engines.usb2_device import device_bench, IDLE_INIT

PROPERTY = "C17"
ENGINE = "usb2_device"
CLOCK_HZ = 60e6
RULES = {
    "C17.sampled_value": "a (non-retry) poll is answered with one value the signal held between the start of the IN token and the "
                         "start of the answer, serialised in the configured byte order, as one DATAx packet of ceil(width/8) bytes",
    "C17.retry_same": "after an answer that was not ACKed, the next poll is answered with the same payload and the same data PID",
    "C17.toggle": "the data PID is DATA0 first and flips exactly after each ACKed answer",
    "C17.read_complete": "status_read_complete strobes for one cycle per ACKed answer and never otherwise",
}
PROBES = ["change_in_response_window", "change_during_answer", "retry_after_lost_ack", "retry_after_garbled_ack",
          "retry_after_other_ep_traffic", "retry_after_other_device_ack", "acked_polls", "other_ep_acked_between", "wide_signal_ge_24",
          "partial_top_byte", "big_endian_multibyte", "tx_stalled_answer", "signal_in_other_domain"]
META = {
    "components_real": ["USBDevice", "USBSignalInEndpoint", "USBStreamInEndpoint", "USBControlEndpoint", "USBTokenDetector",
                        "USBHandshakeDetector", "USBDataPacketGenerator", "USBDataPacketCRC", "USBInterpacketTimer", "USBEndpointMultiplexer"],
    "components_stubbed": ["UTMI PHY + host (models.usb2.UTMIHost)", "monitored signal driver (literal change list)",
                           "always-valid producer on the bulk IN endpoint"],
    "assumptions": ["legal UTMI; the host never transmits while the device transmits; handshakes follow the answer after >= 2 bit times",
                    "signal_domain='usb' in 3 of 4 configuration groups; in the fourth signal_domain='sync', a domain clocked in phase "
                    "with usb (no real asynchrony), and the sampled value may be up to 4 cycles older (synchroniser delay)",
                    "'sampled when the request arrived' = any value held between the first cycle of the IN token and the first "
                    "cycle of the answer",
                    "upstream packets of other devices are not visible to the DUT (hub behaviour): a foreign IN transaction is "
                    "seen as IN token, silence, host ACK"],
    "rule": "6-22 ops: polls of the status endpoint with signal changes at literal offsets and ack/none/garbled handshakes, signal "
            "sets, SOFs, IN transactions on the bulk endpoint (acked or not), IN/OUT transactions of other devices; width, "
            "endianness and variant fixed per group of 8 scenario indices; byte period, gaps and tx_ready pattern per run",
}
TIERS = {"quick": {"runs": 2400, "wall": 70}, "thorough": {"runs": 16000, "wall": 900}}

EP = 3
WIDTHS = [1, 5, 8, 9, 12, 16, 20, 24, 31, 32, 33, 40]
PULSE_WINDOW = 8
CDC_SLACK = 4             # cycles a synchroniser may delay the signal (signal_domain != 'usb')


def _bench_cfg(index):
    r = random.Random(index // 8 * 2654435761 % (1 << 32))
    c = {"variant": r.choice(["V1", "V2"]), "width": r.choice(WIDTHS), "endianness": r.choice(["little", "big"])}
    if (index // 8) % 4 == 3:
        # the monitored signal lives in another clock domain (constructor option signal_domain); the domain is clocked in
        # phase with "usb" here, and the oracle allows a synchroniser's worth of extra sampling delay
        c["signal_domain"] = "sync"
    return c


def _dev_cfg(c):
    return {"variant": c["variant"], "spy": False,
            "endpoints": [{"kind": "stream_in", "ep": 1, "mps": 8},
                          dict({"kind": "status_in", "ep": EP, "width": c["width"], "endianness": c["endianness"]},
                               **({"signal_domain": c["signal_domain"]} if c.get("signal_domain") else {}))]}


def _value(rng, width, prev):
    k = rng.random()
    mask = (1 << width) - 1
    if k < 0.5:
        return rng.getrandbits(width)
    if k < 0.7:
        return prev ^ (1 << rng.randrange(width))
    if k < 0.8:
        return (~prev) & mask
    return rng.choice([0, mask, prev])


def gen(rng, tier, index):
    bc = _bench_cfg(index)
    bit = 5 if bc["variant"] == "V2" else 1
    nbytes = (bc["width"] + 7) // 8
    cfg = dict(bc)
    cfg.update({
        "byte_period": rng.choice([1, 1, 2, 3]),
        "pre": rng.choice([1, 1, 2]),
        "post": rng.choice([0, 0, 1]),
        "gaps": [rng.choice([0, 0, 1, 2]) for _ in range(rng.randint(1, 4))] if rng.random() < 0.3 else None,
        "txready": rng.choice(["always", "always", ["every", 2], ["every", 3],
                               ["list", [rng.getrandbits(1) | (i == 0) for i in range(5)]]]),
        "hs_gap": 2 * bit + rng.choice([0, 0, 1, 3, 6]),
        "initial": rng.getrandbits(bc["width"]),
    })
    fault_free = rng.random() < 0.15
    p_lost = 0.0 if fault_free else rng.choice([0.15, 0.3, 0.5])
    p_other = 0.0 if fault_free else rng.choice([0.0, 0.2, 0.4])
    foreign_ack = (not fault_free) and rng.random() < 0.5          # this run may contain IN transactions of other devices
    nops = rng.randint(6, 14 if tier == "quick" else 22)
    ops = []
    cur = cfg["initial"]
    span = (2 + 12 * bit) + (nbytes + 3) * 3
    while len(ops) < nops:
        r = rng.random()
        if r < p_other:
            kinds = ["in_ep1", "in_ep1", "in_ep0", "foreign_out", "sof"] + (["foreign_in_ack"] * 2 if foreign_ack else [])
            k = rng.choice(kinds)
            op = {"op": "other", "kind": k, "gap": rng.choice([2, 3, 6, 12]) * bit}
            if k == "in_ep1":
                op["ack"] = rng.random() < 0.7
            if k.startswith("foreign"):
                op["addr"] = rng.randint(1, 127)
                op["ep"] = rng.choice([EP, EP, 1, 0, rng.randint(0, 15)])
                op["delay"] = rng.randint(4, 30) * bit
            ops.append(op)
        elif r < p_other + 0.12:
            cur = _value(rng, bc["width"], cur)
            ops.append({"op": "set", "value": cur, "gap": rng.randint(1, 10)})
        else:
            changes = []
            for _ in range(rng.choice([0, 0, 1, 1, 2, 3, 5])):
                cur = _value(rng, bc["width"], cur)
                changes.append([rng.randint(0, span), cur])
            changes.sort(key=lambda c: c[0])
            if changes:
                cur = changes[-1][1]
            hs = "ack"
            if rng.random() < p_lost:
                hs = rng.choice(["none", "none", "garbled"])
            ops.append({"op": "poll", "changes": changes, "hs": hs, "gap": rng.choice([2, 3, 6, 12, 25]) * bit})
    cfg["idle_data"] = gen_idle_data(rng)
    return {"engine": ENGINE, "config": cfg, "ops": ops}


# ------------------------------------------------------------------------------------------------
class _Producer:
    """ bulk IN endpoint 1: always valid, counting payload, no packet boundaries """

    def __init__(self):
        self.n = 0

    def drive(self, t):
        return {"in1_valid": 1, "in1_payload": self.n & 0xFF, "in1_first": 0, "in1_last": 0}

    def observe(self, t, o):
        if o["in1_ready"]:
            self.n += 1


class _Monitor:
    def __init__(self, pin):
        self.pin = pin
        self.pulses = []

    def observe(self, t, o):
        if o[self.pin]:
            self.pulses.append(t)


def _serialise(value, width, endianness):
    nbytes = (width + 7) // 8
    b = [(value >> (8 * i)) & 0xFF for i in range(nbytes)]
    return bytes(b if endianness == "little" else b[::-1])


def run(scn):
    cfg = scn["config"]
    variant, width, endianness = cfg["variant"], cfg["width"], cfg["endianness"]
    bench = device_bench(_dev_cfg(cfg))
    sig_pin = f"st{EP}_signal"
    init = dict(IDLE_INIT)
    init[sig_pin] = cfg["initial"]
    bit = 5 if variant == "V2" else 1
    timeout = 18 * bit + 4
    nbytes = (width + 7) // 8
    mask = (1 << width) - 1
    ops = scn["ops"]
    viol = Violations()
    probes = {p: 0 for p in PROBES}
    faults = {}
    history = [(0, cfg["initial"] & mask)]       # (first cycle the value is on the pin, value)
    polls = []
    events = []                                   # ordered: ("poll", rec) | ("other", kind, acked)

    def fault(k):
        faults[k] = faults.get(k, 0) + 1

    def script(h):
        def set_signal(v):
            v &= mask
            h.set_pins(**{sig_pin: v})
            history.append((h.t + 1, v))

        h.set_pins(**{sig_pin: cfg["initial"] & mask})
        yield from h.idle(4)
        for op in ops:
            kind = op["op"]
            if kind == "idle":
                yield from h.idle(op["n"])
            elif kind == "set":
                set_signal(op["value"])
                yield from h.idle(op["gap"])
            elif kind == "poll":
                rec = {"hs": op["hs"], "resp": None, "t_tok_start": h.t + 1, "ack_span": None}
                _, t_end = yield from h.send(token_packet("IN", 0, EP), info="poll")
                rec["t_tok_end"] = t_end
                changes = list(op["changes"])
                n0 = len(h.tx_packets)
                k = 0
                waited = 0
                while True:
                    while changes and changes[0][0] <= k:
                        set_signal(changes.pop(0)[1])
                        fault("signal_change_in_flight")
                    if len(h.tx_packets) > n0:
                        rec["resp"] = h.tx_packets[n0]
                        break
                    if h._tx_cur is None:
                        waited += 1
                        if waited > timeout:
                            break
                    yield
                    k += 1
                for _, v in changes:                 # changes scheduled after the answer ended: apply now, in order
                    set_signal(v)
                polls.append(rec)
                events.append(("poll", rec))
                if rec["resp"] is not None:
                    if op["hs"] == "ack":
                        yield from h.idle(cfg["hs_gap"])
                        rec["ack_span"] = (yield from h.send(handshake_packet("ACK"), info="ack"))
                    elif op["hs"] == "garbled":
                        fault("corrupt_handshake")
                        yield from h.idle(cfg["hs_gap"])
                        yield from h.send(bytes([0xD2 ^ 0x10]), info="garbled_ack")
                    else:
                        fault("lost_handshake")
                yield from h.idle(op["gap"])
            elif kind == "other":
                k = op["kind"]
                if k == "sof":
                    yield from h.send(sof_packet(7), info="sof")
                    events.append(("other", "sof", False))
                elif k == "in_ep1":
                    fault("interleave_other_ep")
                    yield from h.send(token_packet("IN", 0, 1), info="in_ep1")
                    r = yield from h.recv(timeout)
                    acked = False
                    if r is not None and usb2.classify_tx(r["data"])[0] in ("DATA0", "DATA1") and op.get("ack"):
                        yield from h.idle(cfg["hs_gap"])
                        yield from h.send(handshake_packet("ACK"), info="ack_ep1")
                        acked = True
                    events.append(("other", "in_ep1", acked))
                elif k == "in_ep0":
                    fault("interleave_other_ep")
                    yield from h.send(token_packet("IN", 0, 0), info="in_ep0")
                    yield from h.recv(timeout)
                    events.append(("other", "in_ep0", False))
                elif k == "foreign_in_ack":
                    fault("interleave_other_device_ack")
                    yield from h.send(token_packet("IN", op["addr"], op["ep"]), info="foreign_in")
                    yield from h.idle(op["delay"])            # the other device answers upstream (invisible to the DUT)
                    yield from h.send(handshake_packet("ACK"), info="foreign_ack")
                    events.append(("other", "foreign_in_ack", True))
                elif k == "foreign_out":
                    fault("interleave_other_device")
                    yield from h.send(token_packet("OUT", op["addr"], op["ep"]), info="foreign_out")
                    yield from h.idle(2 * bit)
                    yield from h.send(data_packet("DATA0", b"\x11\x22\x33"), info="foreign_data")
                    events.append(("other", "foreign_out", False))
                yield from h.idle(op["gap"])
        yield from h.idle(PULSE_WINDOW + 4)

    host = UTMIHost(script, idle_data=cfg.get("idle_data"), byte_period=cfg["byte_period"], pre=cfg["pre"], post=cfg["post"], gap_pattern=cfg["gaps"],
                    txready=(cfg["txready"] if cfg["txready"] == "always" else tuple(cfg["txready"])))
    mon = _Monitor(f"st{EP}_read_complete")
    max_cycles = 400 + sum(8 * (cfg["byte_period"] + 3) + 2 * timeout + (nbytes + 12) * 6 + op.get("gap", 0) + op.get("n", 0)
                           + op.get("delay", 0) + cfg["hs_gap"] for op in ops)
    log = bench.run([host, _Producer(), mon], max_cycles, init=init)
    if not host._done:
        raise RuntimeError("host script did not finish within the cycle cap")
    if host.tx_during_rx:
        raise RuntimeError("harness: device transmitted while the host was sending (host model not legal here)")

    # ---- oracle: reference model over the recorded history ----------------------------------------------------------
    def values_between(a, b):
        out = []
        for i, (t0, v) in enumerate(history):
            t1 = history[i + 1][0] if i + 1 < len(history) else 1 << 60
            if t0 <= b and t1 > a and v not in out:
                out.append(v)
        return out

    if width >= 24:
        probes["wide_signal_ge_24"] += 1
    if width % 8:
        probes["partial_top_byte"] += 1
    if endianness == "big" and nbytes > 1:
        probes["big_endian_multibyte"] += 1
    if cfg.get("signal_domain"):
        probes["signal_in_other_domain"] += 1

    toggle = 0
    pending = None                 # (payload, pid) of an answer that was not ACKed
    pending_hs = None
    between = []                   # kinds of other traffic since the pending answer
    expected_pulses = []           # (from, to) windows that must contain exactly one read_complete cycle
    outcomes = set()
    shape = {"variant": variant}
    cfg_txt = f"[width {width}, {endianness}-endian]"
    for ev in events:
        if ev[0] == "other":
            if pending is not None:
                between.append(ev[1])
            if ev[1] == "in_ep1" and ev[2]:
                probes["other_ep_acked_between"] += 1
            continue
        rec = ev[1]
        r = rec["resp"]
        t_tok = rec["t_tok_end"]
        after = ("retry:" + ",".join(sorted(set(between))) if between else "retry") if pending is not None else "fresh"
        if r is None:
            viol.add("C17.sampled_value", t_tok, f"no answer to the IN token ending at cycle {t_tok} within {timeout} cycles "
                     f"({after}) {cfg_txt}", kind="no_answer", after=after, **shape)
            break
        name, payload = usb2.classify_tx(r["data"])
        if r["stalls"]:
            probes["tx_stalled_answer"] += 1
        if name not in ("DATA0", "DATA1") or len(payload) != nbytes:     # (short-circuit: payload is bytes for DATAx)
            viol.add("C17.sampled_value", r["start"], f"answer {r['data'].hex()} is not a DATA0/1 packet with {nbytes} payload bytes "
                     f"({name}: {payload.hex() if isinstance(payload, bytes) else payload})", kind="malformed", after=after, **shape)
            break
        if pending is not None:
            outcomes.add("retry")
            why = "lost_ack"
            if "foreign_in_ack" in between:
                probes["retry_after_other_device_ack"] += 1
                why = "other_device_ack"
            elif between:
                probes["retry_after_other_ep_traffic"] += 1
                why = "other_traffic"
            if pending_hs == "garbled":
                probes["retry_after_garbled_ack"] += 1
            probes["retry_after_lost_ack"] += 1
            if (payload, name) != pending:
                viol.add("C17.retry_same", r["start"], f"retry answered {name} {payload.hex()} but the un-ACKed answer was "
                         f"{pending[1]} {pending[0].hex()} (traffic in between: {between}) {cfg_txt}", kind="retry_differs", after=why, **shape)
                break
        else:
            outcomes.add("fresh")
            if name != f"DATA{toggle}":
                viol.add("C17.toggle", r["start"], f"answer carries {name}, expected DATA{toggle} {cfg_txt}", kind="wrong_pid", after=after, **shape)
                break
            cands = values_between(rec["t_tok_start"] - (CDC_SLACK if cfg.get("signal_domain") else 0), r["start"])
            if len(cands) > 1:
                probes["change_in_response_window"] += 1
            if values_between(r["start"] + 1, r["end"]) != values_between(r["start"] + 1, r["start"] + 1):
                probes["change_during_answer"] += 1
            if payload not in [_serialise(v, width, endianness) for v in cands]:
                v_le = int.from_bytes(payload if endianness == "little" else payload[::-1], "little")
                held = v_le in values_between(0, log.cycles)
                viol.add("C17.sampled_value", r["start"], f"answer {payload.hex()} (= {v_le:#x} {endianness}-endian); the signal held "
                         f"{[hex(v) for v in cands]} between cycle {rec['t_tok_start']} (IN token) and {r['start']} (answer starts) {cfg_txt}",
                         kind="value_held_at_other_time" if held else "value_never_held", after=after, **shape)
                break
        if rec["ack_span"] is not None:
            probes["acked_polls"] += 1
            outcomes.add("acked")
            toggle ^= 1                  # the (fresh or retried) answer with PID DATA<toggle> has now been ACKed
            pending = None
            between = []
            expected_pulses.append((rec["ack_span"][0], rec["ack_span"][1] + PULSE_WINDOW))
        else:
            pending = (payload, name)
            pending_hs = rec["hs"]
            between = []

    if not viol:
        used = set()
        for a, b in expected_pulses:
            hits = [p for p in mon.pulses if a <= p <= b]
            used.update(hits)
            if len(hits) != 1:
                viol.add("C17.read_complete", a, f"{len(hits)} status_read_complete cycles (expected 1) for the ACK sent in cycles {a}..{b - PULSE_WINDOW}",
                         kind="missing" if not hits else "multiple", after="ack", **shape)
                break
        if not viol:
            extra = [p for p in mon.pulses if p not in used]
            if extra:
                p0 = extra[0]
                foreign = any(e[0] == "rx" and e[4] == "foreign_ack" and e[1] <= p0 <= e[2] + PULSE_WINDOW for e in host.events)
                viol.add("C17.read_complete", p0, f"status_read_complete at cycle {p0} without an ACKed answer"
                         + (" (during/after the host's ACK of another device's IN transaction)" if foreign else ""),
                         kind="spurious", after="other_device_ack" if foreign else "n/a", **shape)

    sig = hashlib.blake2b(repr((variant, width, endianness, sorted(log.fsm_vectors), sorted(faults), sorted(outcomes))).encode(),
                          digest_size=8).hexdigest()
    nontrivial = len(polls) >= 2 and bool(faults)
    return {"violations": viol.items, "cycles": log.cycles, "faults": faults, "probes": probes, "sig": sig,
            "nontrivial": nontrivial, "digest": log.digest, "fsm": len(log.fsm_vectors)}
