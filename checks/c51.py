"""
C51 -- SPI register interface reads and writes exactly the addressed register.

DUT: luna.gateware.interface.spi.SPIRegisterInterface (with its SPICommandInterface) and a random register map:
memory registers (observed through their value signal and caller-supplied write strobe), constant and signal-backed
read-only registers, special-function registers (read signal / write signal + strobe), unassigned addresses.
Actor: models.periph_spi.SPIController (SPI mode with SCK idle low, data changing on the rising and sampled on the
falling edge, CS active high) playing literal waveforms.  Oracle: register-file model.
"""

import hashlib

from dsim.kernel import make_bench, cached_bench, Violations
from models.periph_spi import SPIWaveform, SPIController, bits_from_word

PROPERTY = "C51"
ENGINE = "periph"
CLOCK_HZ = 60e6
RULES = {
    "C51.read_value": "the data phase returns, MSB first, the value the addressed register had when the command completed "
                      "(the default value for unassigned addresses / registers without a read value)",
    "C51.write_exact": "a complete write transaction updates exactly the addressed register with the transmitted value and "
                       "pulses its write strobe for exactly one cycle; nothing else changes; reads change nothing",
    "C51.abort_no_change": "a transaction whose CS is released before the last data bit changes no register and pulses no write strobe",
}
PROBES = ["write_mem", "write_sfr", "write_readonly_or_unassigned", "read_unassigned", "read_after_write_same_reg",
          "abort_in_command", "abort_in_data", "abort_last_bit_missing", "abort_mid_clock", "abort_right_after_command",
          "cs_released_in_sck_rise_cycle", "cs_released_in_sck_fall_cycle",
          "overrun_bits_after_word", "cs_gap_lt_4_after_abort", "cs_released_1_cycle_after_last_edge", "requick_after_command_abort", "sfr_input_changed_in_data_phase", "narrow_mem_register",
          "autonegotiation_register_read", "sdo_bits_checked", "jittered_clock"]
META = {
    "components_real": ["luna.gateware.interface.spi.SPIRegisterInterface", "luna.gateware.interface.spi.SPICommandInterface"],
    "components_stubbed": ["SPI controller (models.periph_spi.SPIController)", "SFR read inputs: literal values"],
    "assumptions": ["SPI pins change synchronously to the system clock; SCK idles low; every SCK half-period >= 3 system cycles "
                    "(the interface needs 5 cycles between the last command bit and the first data bit: a clock-rate limit of the "
                    "design, not part of the statement)",
                    "CS is asserted >= 1 cycle away from SCK edges and inactive >= 2 cycles between transactions; CS may be released in "
                    "the very cycle of an SCK edge, but only in transactions that are incomplete whether or not that edge's bit counts",
                    "a transaction is complete iff all command and data bits were sampled while CS was active; otherwise aborted",
                    "SFR read inputs change only while CS is inactive or after the second data bit (the latch instant is not "
                    "part of the statement)",
                    "value update / write strobe within 8 cycles after the last data bit's sample edge"],
    "rule": "address_size 2..15, register_size 2..40, default read value, autonegotiation on/off, 2-6 registers of mixed kinds; "
            "2-8 transactions: reads/writes of assigned, unassigned and boundary addresses, cs_abort after every possible bit count "
            "(also mid clock period), overrun bits, literal jittered half-periods 3..9, CS gaps 2..12",
}
TIERS = {"quick": {"runs": 5400, "wall": 70}, "thorough": {"runs": 24000, "wall": 900}}

WINDOW = 8


def gen(rng, tier, index):
    a = rng.choice([2, 3, 4, 7, 7, 8, 15, 15, rng.randint(2, 15)])
    r = rng.choice([2, 3, 8, 8, 12, 16, 16, 24, 32, 32, 33, 40, rng.randint(2, 40)])
    cfg = {"address_size": a, "register_size": r, "default": rng.choice([0, 0, (1 << r) - 1, rng.getrandbits(r)]),
           "autoneg": rng.random() < 0.5}
    n_regs = rng.randint(2, min(6, (1 << a) - 1))
    pool = list(range(1, 1 << a)) if (1 << a) <= 64 else None
    addrs = set()
    regs = []
    while len(regs) < n_regs:
        ad = rng.choice(pool) if pool else rng.choice([rng.randrange(1, 1 << a), (1 << a) - 1, 1, 2, 1 << (a - 1)])
        if ad in addrs:
            continue
        addrs.add(ad)
        kind = rng.choice(["mem", "mem", "mem", "ro_const", "ro_sig", "sfr_rw", "sfr_wo"])
        reg = {"addr": ad, "kind": kind}
        if kind == "mem":
            reg["size"] = r if rng.random() < 0.7 else rng.randint(1, r)
            reg["init"] = rng.getrandbits(reg["size"])
        elif kind == "ro_const":
            reg["const"] = rng.getrandbits(r)
        regs.append(reg)
    cfg["registers"] = regs
    unassigned = [x for x in ([0] if not cfg["autoneg"] else []) + [rng.randrange(1 << a) for _ in range(6)] + [(1 << a) - 1]
                  if x not in addrs and not (x == 0 and cfg["autoneg"])]
    ops = []
    n_txn = rng.randint(2, 7 if tier == "quick" else 14)
    total = a + 1 + r
    clock_style = rng.choice(["uniform", "jitter", "jitter"])
    last_written = None
    for _ in range(n_txn):
        k = rng.random()
        if last_written is not None and k < 0.25:
            addr, write = last_written, 0                       # read back what was just written
        elif k < 0.75:
            addr, write = rng.choice(regs)["addr"], rng.getrandbits(1)
        elif k < 0.85 and cfg["autoneg"]:
            addr, write = 0, rng.random() < 0.2
        elif unassigned:
            addr, write = rng.choice(unassigned), rng.getrandbits(1)
        else:
            addr, write = rng.choice(regs)["addr"], 1
        data = rng.choice([rng.getrandbits(r), rng.getrandbits(r), 0, (1 << r) - 1])
        k = rng.random()
        if k < 0.6:
            nbits = total
        elif k < 0.9:
            nbits = rng.choice([rng.randint(1, total - 1), total - 1, a + 1, a, a + 2, 1])
            nbits = max(1, min(total - 1, nbits))
        else:
            nbits = total + rng.randint(1, 6)
        if clock_style == "uniform":
            h = rng.randint(3, 6)
            halves = [[h, h]]
        else:
            halves = [[rng.randint(3, 9), rng.randint(3, 9)] for _ in range(nbits)]
        op = {"write": int(write), "addr": addr, "data": data, "nbits": nbits, "halves": halves,
              "gap": rng.choice([2, 2, 3, 3, 4, 5, 8, 12]), "setup": rng.choice([1, 2, 3, 6]), "hold": rng.choice([1, 1, 2, 3, 6])}
        if nbits < total and rng.random() < 0.3:
            op["abort_mid_clock"] = rng.randint(1, 4)
            if rng.random() < 0.35:
                # CS released in the very cycle of an SCK edge: the leading edge of the next bit ("rise"), or the trailing
                # (sample) edge of the last bit sent ("fall").  Only for transactions that stay incomplete even if that
                # bit is counted, so the outcome does not depend on whether the coincident bit was sampled.
                del op["abort_mid_clock"]
                op["release_on_edge"] = rng.choice(["rise", "fall", "fall"])
        elif rng.random() < 0.3:
            op["last_low"] = rng.choice([1, 1, 2, 3])         # CS released this many cycles after the last falling edge
        sfr_set = {}
        for i, reg in enumerate(regs):
            if reg["kind"] in ("ro_sig", "sfr_rw") and rng.random() < 0.5:
                sfr_set[str(i)] = rng.getrandbits(r)
        if sfr_set:
            op["sfr_set"] = sfr_set
        if rng.random() < 0.3:
            op["sfr_mid"] = {str(i): rng.getrandbits(r) for i, reg in enumerate(regs) if reg["kind"] in ("ro_sig", "sfr_rw")}
        if ops and ops[-1]["nbits"] == a + 1 and "abort_mid_clock" not in ops[-1] and rng.random() < 0.6:
            # aim at the three cycles after the last command bit: CS released right after the edge, re-asserted quickly
            ops[-1]["last_low"] = rng.choice([1, 1, 2])
            op["gap"] = rng.choice([2, 2, 3, 4])
        ops.append(op)
        if write and nbits >= total:
            last_written = addr
    return {"engine": ENGINE, "config": cfg, "ops": ops}


def _bench(cfg):
    from amaranth import Signal
    from luna.gateware.interface.spi import SPIRegisterInterface
    key = repr(sorted(cfg.items(), key=lambda kv: kv[0]))

    def factory():
        a, r = cfg["address_size"], cfg["register_size"]
        dut = SPIRegisterInterface(address_size=a, register_size=r, default_read_value=cfg["default"],
                                   support_size_autonegotiation=cfg["autoneg"])
        ins = {"sck": dut.spi.sck, "sdi": dut.spi.sdi, "cs": dut.spi.cs}
        outs = {"sdo": dut.spi.sdo}
        for i, reg in enumerate(cfg["registers"]):
            kind, ad = reg["kind"], reg["addr"]
            if kind == "mem":
                ws, rs = Signal(name=f"ws{i}"), Signal(name=f"rs{i}")
                val = dut.add_register(ad, size=reg["size"], init=reg["init"], write_strobe=ws, read_strobe=rs)
                outs[f"val{i}"], outs[f"ws{i}"], outs[f"rs{i}"] = val, ws, rs
            elif kind == "ro_const":
                dut.add_read_only_register(ad, read=reg["const"])
            elif kind == "ro_sig":
                sig = Signal(r, name=f"rd{i}")
                dut.add_read_only_register(ad, read=sig)
                ins[f"rd{i}"] = sig
            elif kind == "sfr_rw":
                sig, wsig, ws, rs = Signal(r, name=f"rd{i}"), Signal(r, name=f"wv{i}"), Signal(name=f"ws{i}"), Signal(name=f"rs{i}")
                dut.add_sfr(ad, read=sig, write_signal=wsig, write_strobe=ws, read_strobe=rs)
                ins[f"rd{i}"] = sig
                outs[f"wv{i}"], outs[f"ws{i}"], outs[f"rs{i}"] = wsig, ws, rs
            else:   # sfr_wo
                wsig, ws = Signal(r, name=f"wv{i}"), Signal(name=f"ws{i}")
                dut.add_sfr(ad, write_signal=wsig, write_strobe=ws)
                outs[f"wv{i}"], outs[f"ws{i}"] = wsig, ws
        return make_bench(dut, clocks={"sync": 1 / 60e6}, main="sync", ins=ins, outs=outs)
    return cached_bench(("c51", key), factory)


def build(scn):
    cfg = scn["config"]
    a, r = cfg["address_size"], cfg["register_size"]
    regs = cfg["registers"]
    extra = {f"rd{i}": 0 for i, reg in enumerate(regs) if reg["kind"] in ("ro_sig", "sfr_rw")}
    w = SPIWaveform(cpol=0, cpha=1, cs_active=1, extra_init=extra)
    w.emit(3)
    for op in scn["ops"]:
        cmd = ((op["write"] & 1) << a) | (op["addr"] & ((1 << a) - 1))
        bits = bits_from_word(cmd, a + 1) + bits_from_word(op["data"] & ((1 << r) - 1), r)
        n = op["nbits"]
        bits = (bits + [0, 1, 1, 0, 1, 0, 0, 1])[:n] if n > len(bits) else bits[:n]
        for k, v in (op.get("sfr_set") or {}).items():
            if f"rd{k}" in extra:
                w.set(**{f"rd{k}": v})
        txn = w.begin(op["gap"], op["setup"])
        txn["op"] = op
        txn["sfr_at_boundary"] = None
        roe = op.get("release_on_edge") if n < a + 1 + r else None
        for i, b in enumerate(bits):
            h1, h2 = op["halves"][i % len(op["halves"])]
            if i == len(bits) - 1 and roe == "fall":
                h2 = 0
            elif i == len(bits) - 1 and op.get("last_low") and not op.get("abort_mid_clock"):
                h2 = op["last_low"]
            w.bit(b, h1, h2)
            if i == a + 2 and op.get("sfr_mid"):
                w.set(**{f"rd{k}": v for k, v in op["sfr_mid"].items() if f"rd{k}" in extra})
                txn["sfr_mid_applied"] = True
        amc = op.get("abort_mid_clock")
        if roe == "rise":
            w.half_bit(1, 0)
            w.end(0)
        elif roe == "fall":
            w.end(0)
        elif amc and n < a + 1 + r:
            w.half_bit(1, amc)
            w.end(0)
        else:
            w.end(0 if op.get("last_low") else op["hold"])
    w.finish(WINDOW + 8)
    return w


def run(scn):
    cfg = scn["config"]
    a, r = cfg["address_size"], cfg["register_size"]
    regs = cfg["registers"]
    mask = (1 << r) - 1
    bench = _bench(cfg)
    viol = Violations()
    probes = {p: 0 for p in PROBES}
    w = build(scn)
    ctl = SPIController(w)
    log = bench.run([ctl], max_cycles=len(w.pins) + 2, init=dict(w.pins[0]))
    rec = ctl.rec
    if len(rec) < len(w.pins):
        raise RuntimeError("waveform was not played completely")
    by_addr = {reg["addr"]: i for i, reg in enumerate(regs)}
    model = {i: reg["init"] for i, reg in enumerate(regs) if reg["kind"] == "mem"}
    problems = []
    classes = set()
    events = []          # expected writes: (e_cycle, reg index, value, txn index)
    total = a + 1 + r
    prev_aborted_after_cmd = None
    for txn in w.txns:
        op, s = txn["op"], txn["samples"]
        n = len(s)
        complete = n >= total
        ti = txn["index"]
        i = by_addr.get(op["addr"])
        kind = regs[i]["kind"] if i is not None else ("autoneg" if (op["addr"] == 0 and cfg["autoneg"]) else "none")
        # ---- probes
        if n < a + 1:
            probes["abort_in_command"] += 1
            classes.add("abort_cmd")
        elif n < total:
            probes["abort_in_data"] += 1
            classes.add("abort_data")
            if n == total - 1:
                probes["abort_last_bit_missing"] += 1
            if n == a + 1:
                probes["abort_right_after_command"] += 1
                classes.add("abort_at_boundary")
        if n > total:
            probes["overrun_bits_after_word"] += 1
            classes.add("overrun")
        if op.get("abort_mid_clock") and n < total:
            probes["abort_mid_clock"] += 1
        if op.get("release_on_edge") and n < total:
            probes["cs_released_in_sck_" + op["release_on_edge"] + "_cycle"] += 1
        if len(set(h for p in op["halves"] for h in p)) > 1:
            probes["jittered_clock"] += 1
        if ti > 0:
            pt = w.txns[ti - 1]
            if len(pt["samples"]) < total and txn["start"] - pt["end"] < 4:
                probes["cs_gap_lt_4_after_abort"] += 1
            if len(pt["samples"]) == a + 1 and txn["start"] - pt["samples"][-1] <= 4:
                probes["requick_after_command_abort"] += 1
        if s and txn["end"] - s[-1] == 1:
            probes["cs_released_1_cycle_after_last_edge"] += 1
        # ---- read value at the command/data boundary
        if n > a + 1:
            boundary = s[a]
            if kind == "mem":
                exp = model[i]
                if regs[i]["size"] < r:
                    probes["narrow_mem_register"] += 1
            elif kind == "ro_const":
                exp = regs[i]["const"] & mask
            elif kind in ("ro_sig", "sfr_rw"):
                exp = w.pins[boundary][f"rd{i}"] & mask
            elif kind == "autoneg":
                exp = mask
                probes["autonegotiation_register_read"] += 1
            else:
                exp = cfg["default"] & mask
                if kind == "none":
                    probes["read_unassigned"] += 1
            if txn.get("sfr_mid_applied") and kind in ("ro_sig", "sfr_rw"):
                probes["sfr_input_changed_in_data_phase"] += 1
            exp_bits = bits_from_word(exp, r)
            for k in range(min(r, n - (a + 1))):
                c = s[a + 1 + k]
                got = rec[c]["sdo"]
                if got != exp_bits[k]:
                    problems.append((c, "C51.read_value", f"transaction {ti} ({'write' if op['write'] else 'read'} addr 0x{op['addr']:x}, "
                                     f"{kind}): SDO={got} at data bit {k} (cycle {c}), expected {exp_bits[k]} of value 0x{exp:x}",
                                     {"kind": "sdo", "register": kind, "is_write": bool(op["write"]), "first_data_bit": bool(k == 0),
                                      **_abort_shape(txn, a, total, w)}))
                    break
                probes["sdo_bits_checked"] += 1
        # ---- writes
        if complete and op["write"]:
            e = s[total - 1]
            if kind == "mem":
                new = op["data"] & ((1 << regs[i]["size"]) - 1)
                events.append((e, i, new, ti))
                model[i] = new
                probes["write_mem"] += 1
                classes.add("write_mem")
            elif kind in ("sfr_rw", "sfr_wo"):
                events.append((e, i, op["data"] & mask, ti))
                probes["write_sfr"] += 1
                classes.add("write_sfr")
            else:
                probes["write_readonly_or_unassigned"] += 1
        if complete and not op["write"] and ti > 0:
            pop = w.txns[ti - 1]["op"]
            if pop["write"] and pop["addr"] == op["addr"] and len(w.txns[ti - 1]["samples"]) >= total:
                probes["read_after_write_same_reg"] += 1
                classes.add("readback")

    # ---------------- register traces ----------------
    def txn_at(c):
        cur = None
        for txn in w.txns:
            if txn["start"] <= c:
                cur = txn
        return cur

    def blame(c):
        txn = txn_at(c)
        if txn is not None and len(txn["samples"]) < total:
            return "C51.abort_no_change", txn
        return "C51.write_exact", txn

    for i, reg in enumerate(regs):
        kind = reg["kind"]
        if kind not in ("mem", "sfr_rw", "sfr_wo"):
            continue
        evs = [ev for ev in events if ev[1] == i]
        ei = 0
        cur = reg["init"] if kind == "mem" else None
        pending = None          # event whose window is open: [e, new, strobe_seen, value_seen]
        for c, smp in enumerate(rec):
            if pending is None and ei < len(evs) and c > evs[ei][0]:
                pending = [evs[ei][0], evs[ei][2], False, False, evs[ei][3]]
                ei += 1
            strobe = smp[f"ws{i}"]
            if strobe:
                if pending is None or pending[2]:
                    rule, txn = blame(c)
                    problems.append((c, rule, f"write strobe of register 0x{reg['addr']:x} ({kind}) pulses in cycle {c} "
                                     f"{'a second time' if pending else 'without a completed write to it'} "
                                     f"(transaction {txn['index'] if txn else '-'}: {_desc(txn, total)})",
                                     {"kind": "extra_strobe", "register": kind, **_abort_shape(txn, a, total, w)}))
                    break
                pending[2] = True
                if kind != "mem":
                    gotv = smp[f"wv{i}"]
                    if gotv != pending[1]:
                        problems.append((c, "C51.write_exact", f"SFR 0x{reg['addr']:x}: write value 0x{gotv:x} at the strobe, "
                                         f"transmitted 0x{pending[1]:x}", {"kind": "value", "register": kind}))
                        break
                    pending[3] = True
            if kind == "mem":
                v = smp[f"val{i}"]
                if v != cur:
                    if pending is not None and not pending[3] and v == pending[1]:
                        pending[3] = True
                        cur = v
                    else:
                        rule, txn = blame(c)
                        if pending is not None and not pending[3]:
                            rule = "C51.write_exact"
                        problems.append((c, rule, f"register 0x{reg['addr']:x} changes from 0x{cur:x} to 0x{v:x} in cycle {c}; "
                                         + (f"the completed write transmitted 0x{pending[1]:x}" if pending is not None and not pending[3]
                                            else f"no completed write addressed it (transaction {txn['index'] if txn else '-'}: "
                                                 f"{_desc(txn, total)})"),
                                         {"kind": "value" if (pending is not None and not pending[3]) else "unexpected_change",
                                          "register": kind, **_abort_shape(txn, a, total, w)}))
                        break
            if pending is not None and c >= pending[0] + WINDOW:
                same = (kind == "mem" and pending[1] == cur)
                if not pending[2] or not (pending[3] or same):
                    problems.append((c, "C51.write_exact", f"completed write of 0x{pending[1]:x} to register 0x{reg['addr']:x} ({kind}, "
                                     f"last data bit sampled in cycle {pending[0]}): "
                                     f"{'no write strobe' if not pending[2] else 'value not updated'} within {WINDOW} cycles",
                                     {"kind": "missing", "register": kind}))
                    break
                pending = None
    if problems:
        c, rule, msg, shp = min(problems, key=lambda p: p[0])
        viol.add(rule, c, f"{msg} [address_size={a}, register_size={r}]", **shp)
    faults = {"cs_abort": probes["abort_in_command"] + probes["abort_in_data"], "cs_abort_mid_clock": probes["abort_mid_clock"],
              "sck_jitter": probes["jittered_clock"], "overrun": probes["overrun_bits_after_word"]}
    sig = hashlib.blake2b(repr((a, r, sorted(reg["kind"] for reg in regs), sorted(classes))).encode(), digest_size=8).hexdigest()
    return {"violations": viol.items, "cycles": log.cycles, "faults": faults, "probes": probes, "sig": sig,
            "nontrivial": bool(events) or probes["sdo_bits_checked"] > 0, "digest": log.digest, "fsm": len(log.fsm_vectors)}


def _desc(txn, total):
    if txn is None:
        return "before any transaction"
    op = txn["op"]
    n = len(txn["samples"])
    return (f"{'write' if op['write'] else 'read'} addr 0x{op['addr']:x}, {n} of {total} bits"
            f"{' (aborted)' if n < total else ''}")


def _abort_shape(txn, a, total, w):
    if txn is None:
        return {}
    n = len(txn["samples"])
    shp = {"txn_aborted": bool(n < total), "aborted_in_command": bool(n < a + 1), "aborted_right_after_command": bool(n == a + 1)}
    ti = txn["index"]
    if ti > 0:
        pt = w.txns[ti - 1]
        shp["prev_aborted"] = bool(len(pt["samples"]) < total)
        shp["prev_aborted_right_after_command"] = bool(len(pt["samples"]) == a + 1)
        shp["cs_gap_lt_4"] = bool(txn["start"] - pt["end"] < 4)
        shp["cs_reasserted_within_4_of_last_command_edge"] = bool(len(pt["samples"]) == a + 1 and txn["start"] - pt["samples"][-1] <= 4)
    return shp


def shrink_candidates(scn):
    import copy
    for i, op in enumerate(scn["ops"]):
        if op["halves"] != [[3, 3]]:
            cand = copy.deepcopy(scn)
            cand["ops"][i]["halves"] = [[3, 3]]
            yield cand
        for k in ("sfr_mid", "sfr_set", "abort_mid_clock", "last_low", "release_on_edge"):
            if k in op:
                cand = copy.deepcopy(scn)
                del cand["ops"][i][k]
                yield cand
