"""
C11 -- bulk/interrupt IN endpoints deliver the stream exactly once, in order.

DUT: a complete USBDevice (timing variant V1 = 12 MHz as in the repository's tests, V2 = 60 MHz ULPI timing) with one
USBStreamInEndpoint (max packet size 8 / 16 / 64).  A StreamProducer feeds transfers (last markers, gaps, flush pulses);
the host actor issues IN tokens at scripted times and acknowledges, fails to acknowledge (data not received) or sends a
garbled ACK (data received, handshake lost); SOFs, tokens for other endpoints and transactions with another device address
are interleaved.  The run ends with a fault-free drain.  Oracle: models.streams_usb2.check_in_stream (wire level).
"""

import hashlib

from dsim.kernel import Violations
from models.usb2_wire import gen_idle_data
from models.usb2 import UTMIHost, token_packet
from models import streams_usb2 as su
from models.usb2_ctrl import hs_handshake, HS_HANDSHAKE_CYCLES
from engines.usb2_device import device_bench, IDLE_INIT

PROPERTY = "C11"
ENGINE = "usb2_device"
CLOCK_HZ = 60e6
RULES = {
    "C11.conservation": "data accepted by the host (each DATA0/DATA1-toggled packet once) is exactly the input stream, in order",
    "C11.max_packet": "no packet exceeds the max packet size",
    "C11.transfer_end": "every transfer ends with a short or zero-length packet; no packet spans a transfer boundary; no "
                        "short/zero-length packet appears elsewhere unless flush was requested",
    "C11.retry_identical": "a packet re-sent after a missing ACK repeats the same PID and payload",
    "C11.nak_when_empty": "an IN token finding no data is NAKed; every response is NAK or a well-formed DATA0/1 packet",
    "C11.progress": "after a fault-free drain everything handed to the endpoint has reached the host",
}
PROBES = ["retry_after_missing_ack", "retry_after_garbled_ack", "zlp_sent", "zlp_retried", "nak_seen", "short_by_flush",
          "full_packet_without_last", "foreign_ack_while_unacked", "token_other_ep_while_unacked", "txready_stalled_runs",
          "v2_runs", "dup_discarded_by_host", "high_speed_runs"]
META = {
    "components_real": ["USBDevice", "USBStreamInEndpoint", "USBInTransferManager", "USBTokenDetector", "USBHandshakeDetector",
                        "USBDataPacketGenerator", "USBDataPacketCRC", "USBInterpacketTimer", "USBEndpointMultiplexer"],
    "components_stubbed": ["UTMI PHY + host (models.usb2.UTMIHost + models.streams_usb2 transactions)",
                           "stream producer (models.streams_usb2.StreamProducer)"],
    "assumptions": ["legal UTMI receive side; the host never transmits while the device transmits and keeps >= 2 bit times "
                    "between packets", "the producer holds valid/payload/last until accepted; discard is never asserted",
                    "a short packet that does not end a transfer is legitimate iff flush was high while its bytes were buffered",
                    "bus traffic for another device address (IN token + the host's ACK to that device) is legal host behaviour"],
    "rule": "0-5 transfers (lengths around 1, mps-1, mps, mps+1, 2*mps; 80% with last) with gap patterns and flush pulses; "
            "host op list of IN (ack good/none/garbled), idle, SOF, token to another endpoint, transaction with another "
            "device; byte period, turn-around, tx_ready pattern, timing variant and max packet size per run; final drain",
}
TIERS = {"quick": {"runs": 2000, "wall": 75}, "thorough": {"runs": 9000, "wall": 900}}

CONFIGS = [(v, m) for m in (8, 16, 64) for v in ("V1", "V2")]


def dev_cfg(variant, mps):
    return {"variant": variant, "control": None, "spy": False,
            "endpoints": [{"kind": "stream_in", "ep": 1, "mps": mps}]}


def gen(rng, tier, index):
    variant, mps = CONFIGS[(index // 8) % len(CONFIGS)]
    bit = 5 if variant == "V2" else 1
    fault_free = rng.random() < 0.15
    transfers = su.gen_in_transfers(rng, mps, max_transfers=5 if tier == "quick" else 7)
    total = sum(len(t["data"]) // 2 for t in transfers)
    use_flush = rng.random() < 0.4
    flush = []
    if use_flush:
        horizon = 200 + total * 6
        for _ in range(rng.randint(1, 4)):
            flush.append([rng.randint(0, horizon), rng.choice([1, 1, 2, 5, 40, 200])])
    # the stream must end deliverable: either the last transfer carries `last`, or flush is held at the end
    final_flush = bool(transfers) and (not transfers[-1]["last"] or rng.random() < 0.1)
    p_none = 0.0 if fault_free else rng.choice([0.0, 0.05, 0.15, 0.3, 0.4])
    p_corrupt = 0.0 if fault_free else rng.choice([0.0, 0.05, 0.15, 0.3])
    p_foreign = 0 if fault_free else rng.choice([0, 0, 0, 1])
    cfg = {
        "variant": variant, "mps": mps,
        "byte_period": rng.choice([1, 1, 1, 2, 4]),
        "pre": rng.choice([1, 1, 2]), "post": rng.choice([0, 0, 1]),
        "turn": bit * rng.choice([2, 2, 3, 6]), "txready": rng.choice(["always", "always", "always", ["every", 2], ["every", 3],
                                                                       ["list", [rng.getrandbits(1) | (i == 0) for i in range(7)]]]),
        "transfers": transfers, "flush": flush, "final_flush": final_flush,
    }
    if variant == "V2" and index % 8 == 3 and (index // 48) % 12 == 0:
        # a few runs at high speed: the device is first taken through a real bus reset + chirp handshake (inter-packet gap 1 cycle)
        cfg["high_speed"] = True
    packets = sum((len(t["data"]) // 2) // mps + 1 for t in transfers)
    nops = rng.randint(2, 4 + 3 * packets)
    ops = []
    prev_unacked = False
    for _ in range(nops):
        r = rng.random()
        if prev_unacked and not fault_free and r < 0.45:
            # bias: something else happens on the bus right after an unacknowledged packet
            q = rng.random()
            if q < 0.35 and p_foreign:
                ops.append({"op": "foreign_in", "addr": rng.randint(1, 127), "ep": rng.choice([1, 1, 2, 0])})
            elif q < 0.6:
                ops.append({"op": "tok_other", "pid": rng.choice(["IN", "IN", "PING", "OUT"]), "ep": rng.randint(2, 15)})
            elif q < 0.8:
                ops.append({"op": "sof", "frame": rng.getrandbits(11)})
            else:
                ops.append({"op": "idle", "n": rng.choice([1, 5, 30, 200])})
            prev_unacked = False
            continue
        if r < 0.62:
            q = rng.random()
            ack = "none" if q < p_none else ("corrupt" if q < p_none + p_corrupt else "good")
            op = {"op": "in", "ack": ack}
            if ack == "corrupt":
                op["bit"] = rng.randrange(8)
            ops.append(op)
            prev_unacked = ack != "good"
        elif r < 0.80:
            ops.append({"op": "idle", "n": rng.choice([1, 3, 10, 30, 100, rng.randint(1, 300)])})
        elif r < 0.86:
            ops.append({"op": "sof", "frame": rng.getrandbits(11)})
        elif r < 0.93 and not fault_free:
            ops.append({"op": "tok_other", "pid": rng.choice(["IN", "IN", "PING", "OUT"]), "ep": rng.randint(2, 15)})
        elif not fault_free and p_foreign:
            ops.append({"op": "foreign_in", "addr": rng.randint(1, 127), "ep": rng.choice([1, 1, 2, 0])})
        else:
            ops.append({"op": "idle", "n": rng.randint(1, 40)})
    cfg["idle_data"] = gen_idle_data(rng)
    return {"engine": ENGINE, "config": cfg, "ops": ops}


def shrink_candidates(scn):
    import copy
    cfg = scn["config"]
    for i in range(len(cfg["transfers"])):
        c = copy.deepcopy(scn)
        del c["config"]["transfers"][i]
        if c["config"]["transfers"] and not c["config"]["transfers"][-1]["last"]:
            c["config"]["final_flush"] = True
        yield c
    for i, tr in enumerate(cfg["transfers"]):
        n = len(tr["data"]) // 2
        for m in (n // 2, n - 1):
            if 1 <= m < n:
                c = copy.deepcopy(scn)
                c["config"]["transfers"][i]["data"] = tr["data"][:2 * m]
                yield c
        if tr["gaps"] != [0] or tr["pre"]:
            c = copy.deepcopy(scn)
            c["config"]["transfers"][i]["gaps"] = [0]
            c["config"]["transfers"][i]["pre"] = 0
            yield c
    for key, val in (("flush", []), ("txready", "always"), ("byte_period", 1), ("post", 0), ("pre", 1)):
        if cfg.get(key) != val:
            c = copy.deepcopy(scn)
            c["config"][key] = val
            yield c
    for i, op in enumerate(scn["ops"]):
        if op.get("op") == "in" and op.get("ack") != "good":
            c = copy.deepcopy(scn)
            c["ops"][i] = {"op": "in", "ack": "good"}
            yield c


def run(scn):
    cfg = scn["config"]
    variant, mps = cfg["variant"], cfg["mps"]
    bench = device_bench(dev_cfg(variant, mps))
    init = dict(IDLE_INIT)
    if variant == "V2":
        init["full_speed_only"] = 0 if cfg.get("high_speed") else 1
    viol = Violations()
    probes = {p: 0 for p in PROBES}
    ctx = su.HostCtx(variant, turn=cfg["turn"])
    beats = su.expand_beats(cfg["transfers"])
    prod = su.StreamProducer("in1_", beats, flush=cfg["flush"], final_flush=cfg["final_flush"], events=ctx.events)
    ops = scn["ops"]
    total_bytes = len(beats)
    drain_budget = 2 * (total_bytes // mps + len(cfg["transfers"]) + 2) + 8
    state = {"drain_polls": 0, "complete": False}

    def pending():
        """ host view: is anything the producer will hand over still missing? """
        got = len(ctx.in_accepted.get(1, b""))
        return (not prod.done) or got < len(prod.accepted)

    def script(h):
        yield from h.idle(4)
        if cfg.get("high_speed"):
            yield from hs_handshake(h)
            probes["high_speed_runs"] += 1
        unacked = False
        for op in ops:
            k = op["op"]
            if k == "in":
                rec = yield from su.txn_in(h, ctx, 1, ack=op["ack"], ack_bit=op.get("bit", 4))
                if rec.get("resp") in su.DATA01:
                    unacked = not rec["acked"]
            elif k == "idle":
                yield from h.idle(op["n"])
            elif k == "sof":
                yield from su.txn_sof(h, ctx, op["frame"])
            elif k == "tok_other":
                if unacked:
                    probes["token_other_ep_while_unacked"] += 1
                ctx.fault("interleave_other_ep")
                t0, t_end = yield from h.send(token_packet(op["pid"], 0, op["ep"]))
                r = yield from h.recv(ctx.timeout)
                if r is not None:
                    ctx.n_recv += 1
                ctx.txns.append({"kind": "tok_other", "ep": None, "t_tok_start": t0, "t_tok": t_end, "t_done": h.t,
                                 "resp": None if r is None else r["data"].hex()})
                yield from h.idle(ctx.turn)
                unacked = False
            elif k == "foreign_in":
                if unacked:
                    probes["foreign_ack_while_unacked"] += 1
                yield from su.txn_foreign_in(h, ctx, op["addr"], op["ep"])
            else:
                raise ValueError(k)
        # ---- fault-free drain: poll until the endpoint NAKs with nothing outstanding (or the budget is spent) ----
        stalled = 0
        while state["drain_polls"] < drain_budget and stalled < 40:
            before = (len(prod.accepted), len(ctx.in_accepted.get(1, b"")))
            rec = yield from su.txn_in(h, ctx, 1, ack="good")
            if prod.done:
                state["drain_polls"] += 1
            if rec.get("resp") == "NAK":
                if prod.done and not pending():
                    break
                yield from h.idle(20)
            # a device that neither takes input nor hands out data for 40 polls in a row is reported, not waited for
            stalled = stalled + 1 if before == (len(prod.accepted), len(ctx.in_accepted.get(1, b""))) else 0
        state["complete"] = True
        yield from h.idle(6)

    txr = cfg["txready"] if cfg["txready"] == "always" else tuple(cfg["txready"])
    host = UTMIHost(script, idle_data=cfg.get("idle_data"), byte_period=cfg["byte_period"], pre=cfg["pre"], post=cfg["post"], txready=txr)
    stall = 1 if txr == "always" else 3
    per_txn = 12 * cfg["byte_period"] + (mps + 6) * stall + 2 * ctx.timeout + 4 * ctx.turn + 40
    max_cycles = (HS_HANDSHAKE_CYCLES if cfg.get("high_speed") else 0) + 1000 + sum(op.get("n", 0) for op in ops) + (len(ops) + 2 * drain_budget) * per_txn \
        + 2 * sum(t["pre"] + (len(t["data"]) // 2) * (1 + max(t["gaps"])) for t in cfg["transfers"])
    log = bench.run([host, prod], max_cycles, init=init)
    if not host._done:
        raise RuntimeError(f"host script did not finish within {max_cycles} cycles")
    if host.tx_during_rx:
        raise RuntimeError("host model transmitted while the device was transmitting (harness bug)")

    # ---- oracle ----
    flush_iv = [(s, s + n - 1) for s, n in cfg["flush"]]
    if cfg["final_flush"] and prod.done_at is not None:
        flush_iv.append((prod.done_at, None))
    mine = [x for x in ctx.txns if x.get("ep") == 1 or x["kind"] == "foreign_in"]
    base = {"variant": variant}
    summ = su.check_in_stream(viol, {k.split(".")[1]: k for k in RULES}, mine, prod.accepted, mps,
                              flush_used=flush_iv, complete_expected=prod.done, base=base)
    if not prod.done and not viol:
        # the endpoint stopped accepting input although the host kept draining it
        viol.add("C11.progress", log.cycles, f"producer still holds {len(beats) - prod.idx} of {len(beats)} bytes after the "
                 f"drain ({state['drain_polls']} polls): transfer_stream.ready never came back", kind="producer_stuck", **base)
    for x in ctx.txns:
        if x["kind"] in ("tok_other", "foreign_in") and x.get("resp") not in (None, "none") and not viol:
            viol.add("C11.nak_when_empty", x["t_tok"], f"device answered a token that was not for endpoint 1 IN of this device: "
                     f"{x.get('resp')}", kind="answered_other_token", **base)
    if len(host.tx_packets) != ctx.n_recv and not viol:
        viol.add("C11.nak_when_empty", host.tx_packets[-1]["start"], f"{len(host.tx_packets) - ctx.n_recv} unsolicited device "
                 f"transmission(s)", kind="unsolicited", **base)

    # ---- probes / evidence ----
    prev = None
    for x in mine:
        if x["kind"] != "in" or x.get("resp") not in su.DATA01:
            if x["kind"] == "in" and x.get("resp") == "NAK":
                probes["nak_seen"] += 1
            continue
        if prev is not None and not prev["acked"]:
            probes["retry_after_garbled_ack" if prev["ack"] == "corrupt" else "retry_after_missing_ack"] += 1
            if x["payload"] == b"":
                probes["zlp_retried"] += 1
        if x["payload"] == b"":
            probes["zlp_sent"] += 1
        prev = x
    probes["dup_discarded_by_host"] += summ["dup_discards"]
    last_after = set(i + 1 for i, a in enumerate(prod.accepted) if a[3])
    off = 0
    for x in mine:
        if x["kind"] == "in" and x.get("resp") in su.DATA01 and x.get("host_accepted"):
            n = len(x["payload"])
            off += n
            if 0 < n < mps and off not in last_after:
                probes["short_by_flush"] += 1
            if n == mps and off not in last_after:
                probes["full_packet_without_last"] += 1
    if txr != "always":
        probes["txready_stalled_runs"] += 1
        ctx.fault("txready_stall")
    if variant == "V2":
        probes["v2_runs"] += 1
    if prod.flush_cycles:
        ctx.fault("flush_pulse")
    if any(t["gaps"] != [0] for t in cfg["transfers"]):
        ctx.fault("producer_gap")
    outcome = sorted(set(str(x.get("resp"))[:5] for x in mine))
    sig = hashlib.blake2b(repr((variant, mps, sorted(log.fsm_vectors), sorted(ctx.faults), outcome)).encode(),
                          digest_size=8).hexdigest()
    return {"violations": viol.items, "cycles": log.cycles, "faults": ctx.faults, "probes": probes, "sig": sig,
            "nontrivial": summ["packets"] > 0 and (summ["retries"] > 0 or summ["zlps"] > 0 or summ["naks"] > 0),
            "digest": log.digest, "fsm": len(log.fsm_vectors)}
