"""
C21 -- frame and microframe numbers track received SOFs.

DUT: the complete USBDevice (V1 12 MHz / V2 60 MHz timing) with a standard control endpoint and one bulk IN endpoint
(so that interleaved tokens addressed to the device are answered by real endpoints).
The host actor plays a history of SOF packets (increments, repeats = microframes, skips, wrap at 2047, jumps),
corrupted / truncated / over-long / aborted SOFs and unrelated packets.  The oracle predicts, from the bytes
actually put on the wire, the frame / microframe numbers and the strobes.

Timing: the statement gives no latency, so every well-formed SOF owns a window of WINDOW cycles starting at the
cycle rx_active falls; the strobes must occur inside it and the numbers must hold their new value from the end of
the window until the next well-formed SOF ends (the real latency is 1-2 cycles).

Receive data bus: UTMI defines rx_data only while rx_valid is high.  In most runs the host therefore puts scenario-chosen
junk on rx_data in every cycle with rx_valid low (before the first byte, in rx_valid gaps, in the cycles between the last
byte and the fall of rx_active, in the cycle rx_active falls and between packets) -- models.utmi_idle_data.  The numbers
predicted by the oracle depend only on the bytes transferred with rx_valid high.
"""

import hashlib

from dsim.kernel import Violations
from models import usb2
from models.usb2 import UTMIHost, token_packet, data_packet, sof_packet, handshake_packet, apply_fault, parse_token
from models.utmi_idle_data import UTMIHostIdleData
from engines.usb2_device import device_bench, IDLE_INIT

PROPERTY = "C21"
ENGINE = "usb2_device"
CLOCK_HZ = 60e6
RULES = {
    "C21.frame": "after each well-formed SOF frame_number equals the SOF's 11-bit number; nothing else changes it",
    "C21.microframe": "microframe_number is 0 after a SOF that changes the frame number, +1 (mod 8) after one that repeats it; "
                      "nothing else changes it",
    "C21.new_frame_iff_changed": "new_frame strobes (one cycle) for a SOF exactly when that SOF changes the frame number, and never otherwise",
    "C21.sof_detected_per_sof": "sof_detected strobes (one cycle) once per well-formed SOF and never otherwise",
}
PROBES = ["wrap_2047_to_0", "repeat_frame", "microframe_wrap_8", "skip_frames", "malformed_sof", "sof_right_after_malformed",
          "sof_equal_to_initial_frame", "device_response_interleaved", "sof_short_gap_to_next_packet",
          "idle_rx_data_differs_in_packet", "idle_rx_data_differs_at_rx_active_fall", "sof_ok_with_idle_rx_data_junk"]
META = {
    "components_real": ["USBDevice (frame/microframe logic)", "USBTokenDetector", "USBControlEndpoint + StandardRequestHandler",
                        "USBStreamInEndpoint", "USBHandshakeGenerator", "USBInterpacketTimer"],
    "components_stubbed": ["UTMI PHY + host (models.usb2.UTMIHost via models.utmi_idle_data.UTMIHostIdleData)"],
    "assumptions": ["legal UTMI receive side: rx_valid only while rx_active; rx_active rises >= 1 cycle before the first byte and "
                    "falls between packets; rx_data is arbitrary (scenario literal) whenever rx_valid is low",
                    "the host does not transmit while the device transmits",
                    "consecutive well-formed SOFs end more than 8 cycles apart (strobe attribution window)",
                    "'changes' is relative to the frame number reported before the SOF (0 after power-up)",
                    "no bus reset inside a run (the statement does not say what a reset does to the counters)"],
    "rule": "history of 8-40 host packets: SOFs whose numbers follow increment/repeat/skip/wrap/jump patterns, a share of them "
            "corrupted (corrupt_bit, truncate, extend, bad_pid_nibble, abort_rx), interleaved with foreign tokens, IN/PING tokens "
            "to the device (answered), handshakes, data packets and garbage; byte period, gaps, tx_ready pattern and variant per run; "
            "rx_data while rx_valid is low per run: held last byte (20 %), constant, last byte xor mask, or a cyclic list of "
            "literal junk bytes changing every cycle",
}
TIERS = {"quick": {"runs": 8000, "wall": 70}, "thorough": {"runs": 24000, "wall": 900}}

WINDOW = 8
DEV_CFG = {v: {"variant": v, "spy": False, "endpoints": [{"kind": "stream_in", "ep": 1, "mps": 16}]} for v in ("V1", "V2")}


# ------------------------------------------------------------------------------------------------
def _sof_fault(rng):
    k = rng.choice(["corrupt_bit", "corrupt_bit", "truncate", "extend", "bad_pid_nibble", "abort_rx"])
    if k == "corrupt_bit":
        return {"kind": "corrupt_bit", "bits": [rng.randrange(24) for _ in range(rng.choice([1, 1, 1, 2, 3]))]}
    if k == "truncate":
        return {"kind": "truncate", "to": rng.randint(1, 2)}
    if k == "extend":
        return {"kind": "extend", "extra": bytes(rng.getrandbits(8) for _ in range(rng.randint(1, 3))).hex()}
    if k == "bad_pid_nibble":
        return {"kind": "bad_pid_nibble", "bit": rng.randrange(8)}
    return {"kind": "abort_rx", "at": rng.randint(1, 2)}


def _other(rng):
    k = rng.choice(["token_foreign", "token_foreign", "in_ep1", "in_ep0", "ping", "handshake", "data", "garbage", "out_foreign_data"])
    if k == "token_foreign":
        raw = token_packet(rng.choice(["IN", "OUT", "SETUP", "PING"]), rng.randint(1, 127), rng.randint(0, 15))
    elif k == "in_ep1":
        raw = token_packet("IN", 0, 1)
    elif k == "in_ep0":
        raw = token_packet("IN", 0, 0)
    elif k == "ping":
        raw = token_packet("PING", 0, rng.choice([0, 1, 2]))
    elif k == "handshake":
        raw = handshake_packet(rng.choice(["ACK", "NAK", "STALL", "NYET"]))
    elif k == "data":
        raw = data_packet(rng.choice(usb2.DATA_PIDS), bytes(rng.getrandbits(8) for _ in range(rng.choice([0, 1, 2, 3, 8]))))
    elif k == "out_foreign_data":
        # a data packet whose payload looks exactly like a SOF token (for another device)
        raw = data_packet("DATA0", sof_packet(rng.getrandbits(11)))
    else:
        raw = bytes(rng.getrandbits(8) for _ in range(rng.randint(1, 6)))
    return {"op": "pkt", "bytes": raw.hex(), "what": k, "gap": rng.choice([1, 1, 2, 3, 6, 12])}


def _idle_data(rng):
    """ what the PHY shows on rx_data while rx_valid is low (undefined by UTMI) """
    r = rng.random()
    if r < 0.2:
        return None                                             # holds the last byte
    if r < 0.4:
        return ["const", rng.choice([0x00, 0x00, 0xFF, rng.getrandbits(8)])]
    if r < 0.6:
        return ["xor", rng.choice([0xFF, 1 << rng.randrange(8), rng.randint(1, 255)])]
    return ["list", [rng.getrandbits(8) for _ in range(rng.choice([1, 2, 3, 5, 7, 11]))]]


def gen(rng, tier, index):
    cfg = {
        "variant": rng.choice(["V1", "V2"]),
        "full_speed_only": rng.choice([0, 1]),
        "byte_period": rng.choice([1, 1, 2, 3, 5]),
        "pre": rng.choice([1, 1, 2, 3]),
        "post": rng.choice([0, 0, 1, 2]),
        "gaps": [rng.choice([0, 0, 0, 1, 3]) for _ in range(rng.randint(1, 5))] if rng.random() < 0.4 else None,
        "txready": rng.choice(["always", "always", ["every", 2], ["every", 3],
                               ["list", [rng.getrandbits(1) | (i == 0) for i in range(7)]]]),
    }
    cfg["idle_data"] = _idle_data(rng)
    fault_free = rng.random() < 0.15
    p_fault = 0.0 if fault_free else rng.choice([0.1, 0.2, 0.35])
    p_other = rng.choice([0.0, 0.15, 0.3, 0.5])
    nops = rng.randint(8, 26 if tier == "quick" else 40)
    frame = rng.choice([0, 0, 1, 2046, 2047, rng.getrandbits(11), rng.getrandbits(11)])
    mode = rng.choice(["fs", "hs", "mixed"])        # how frame numbers evolve
    ops = []
    first = True
    while len(ops) < nops:
        if rng.random() < p_other:
            ops.append(_other(rng))
            continue
        if not first:
            r = rng.random()
            if mode == "fs":
                step = 0 if r < 0.08 else (1 if r < 0.8 else ("skip" if r < 0.92 else "jump"))
            elif mode == "hs":
                step = 0 if r < 0.8 else (1 if r < 0.95 else "skip")
            else:
                step = 0 if r < 0.4 else (1 if r < 0.75 else ("skip" if r < 0.9 else "jump"))
            if step == "skip":
                frame = (frame + rng.randint(2, 9)) & 0x7FF
            elif step == "jump":
                frame = rng.choice([0, 2047, 2040 + rng.randrange(8), rng.getrandbits(11)])
            else:
                frame = (frame + step) & 0x7FF
        first = False
        op = {"op": "sof", "frame": frame, "gap": rng.choice([5, 5, 6, 8, 14, 30])}
        if rng.random() < p_fault:
            op["fault"] = _sof_fault(rng)
        ops.append(op)
    # a SOF directly followed by an unrelated packet may have a short gap (the next packet starts inside its window)
    for a, b in zip(ops, ops[1:]):
        if a["op"] == "sof" and b["op"] == "pkt" and rng.random() < 0.4:
            a["gap"] = rng.choice([1, 1, 2, 3])
    return {"engine": ENGINE, "config": cfg, "ops": ops}


# ------------------------------------------------------------------------------------------------
class _Monitor:
    def __init__(self):
        self.fn, self.mf, self.sof, self.nf = [], [], [], []

    def observe(self, t, o):
        self.fn.append(o["frame_number"])
        self.mf.append(o["microframe_number"])
        self.sof.append(o["sof_detected"])
        self.nf.append(o["new_frame"])


def _wire(op):
    """ bytes put on the wire and the abort position for one op """
    if op["op"] == "sof":
        f = op.get("fault")
        if f and f["kind"] == "abort_rx":
            return sof_packet(op["frame"]), f["at"]
        return apply_fault(sof_packet(op["frame"]), f), None
    return bytes.fromhex(op["bytes"]), None


def run(scn):
    cfg = scn["config"]
    variant = cfg["variant"]
    bench = device_bench(DEV_CFG[variant])
    init = dict(IDLE_INIT)
    init["full_speed_only"] = cfg.get("full_speed_only", 1)
    bit = 5 if variant == "V2" else 1
    timeout = 18 * bit + 4
    ops = scn["ops"]
    viol = Violations()
    probes = {p: 0 for p in PROBES}
    faults = {}
    mon = _Monitor()

    def script(h):
        yield from h.idle(4)
        armed = False
        for i, op in enumerate(ops):
            if op["op"] == "idle":
                yield from h.idle(op["n"])
                continue
            raw, abort_at = _wire(op)
            if op.get("fault"):
                k = op["fault"]["kind"]
                faults[k] = faults.get(k, 0) + 1
            elif op["op"] == "pkt":
                faults["interleave_" + op.get("what", "other")] = faults.get("interleave_" + op.get("what", "other"), 0) + 1
            yield from h.send(raw, abort_at=abort_at, info=i)
            seen = raw if abort_at is None else raw[:abort_at]
            tok = parse_token(seen)
            wait = False
            if tok is not None and tok[0] != "SOF":
                if tok[1] == 0:
                    armed = tok[0] in ("OUT", "SETUP")
                    wait = tok[0] in ("IN", "PING")
                else:
                    armed = False
            elif armed and len(seen) and usb2.pid_name(seen[0]) in usb2.DATA_PIDS:
                wait = True
            if wait:
                r = yield from h.recv(timeout)
                if r is not None:
                    probes["device_response_interleaved"] += 1
                    yield from h.idle(2 * bit)
            gap = max(1, op.get("gap", 5))
            nxt = next((o for o in ops[i + 1:] if o["op"] != "idle"), None)
            if op["op"] == "sof" and (nxt is None or nxt["op"] == "sof"):
                gap = max(gap, 5)           # keeps the strobe windows of consecutive SOFs disjoint (also after shrinking)
            yield from h.idle(gap)
        yield from h.idle(WINDOW + 4)

    host = UTMIHostIdleData(script, idle_data=cfg.get("idle_data"), byte_period=cfg["byte_period"], pre=cfg["pre"], post=cfg["post"], gap_pattern=cfg["gaps"],
                    txready=(cfg["txready"] if cfg["txready"] == "always" else tuple(cfg["txready"])))
    max_cycles = 400 + sum(30 * (cfg["byte_period"] + 4) + 2 * timeout + op.get("gap", 0) + op.get("n", 0) for op in ops)
    log = bench.run([host, mon], max_cycles, init=init)
    if not host._done:
        raise RuntimeError("host script did not finish within the cycle cap")
    if host.tx_during_rx:
        raise RuntimeError("harness: device transmitted while the host was sending (host model not legal here)")

    probes["idle_rx_data_differs_in_packet"] = host.idle_data_in_packet
    probes["idle_rx_data_differs_at_rx_active_fall"] = host.idle_data_at_end

    # ---- oracle -----------------------------------------------------------------------------------------------
    n = log.cycles
    rx = [e for e in host.events if e[0] == "rx"]
    sofs = []                         # (t_end, frame, index into rx, class of previous packet)
    prev_class = "none"
    classes = []
    for k, (_, t0, t1, raw, info) in enumerate(rx):
        tok = parse_token(raw)
        op = ops[info]
        if tok is not None and tok[0] == "SOF":
            sofs.append((t1, tok[1], k, prev_class))
            cls = "sof_ok"
            if host._idd is not None:
                probes["sof_ok_with_idle_rx_data_junk"] += 1
            if prev_class == "sof_bad":
                probes["sof_right_after_malformed"] += 1
            if k + 1 < len(rx) and rx[k + 1][1] - t1 <= 3:
                probes["sof_short_gap_to_next_packet"] += 1
        elif op["op"] == "sof":
            cls = "sof_bad"
            probes["malformed_sof"] += 1
        else:
            cls = "other"
        classes.append(cls)
        prev_class = cls

    F, M = mon.fn[0], mon.mf[0]
    in_window = [False] * n
    seg_start = 0                      # first cycle at which (F, M) must be visible
    repeats = 0
    outcomes = set()

    def check_hold(a, b, F, M, after, pcls="none"):
        """ frame/microframe must equal (F, M) in cycles [a, b) """
        for t in range(a, min(b, n)):
            if mon.fn[t] != F:
                viol.add("C21.frame", t, f"frame_number={mon.fn[t]} expected {F} ({after})", variant=variant, kind="wrong_value",
                         prev=pcls)
                return False
            if mon.mf[t] != M:
                viol.add("C21.microframe", t, f"microframe_number={mon.mf[t]} expected {M} with frame {F} ({after})",
                         variant=variant, kind="wrong_value", prev=pcls)
                return False
        return True

    ok = True
    last_cls = "none"
    after = "before the first SOF"
    for j, (t_end, frame, k, pcls) in enumerate(sofs):
        w_end = t_end + WINDOW
        if j + 1 < len(sofs):
            w_end = min(w_end, sofs[j + 1][0] - 1)
        w_end = min(w_end, n - 1)
        # numbers are stable up to and including the cycle rx_active falls
        if not check_hold(seg_start, t_end + 1, F, M, after, last_cls):
            ok = False
            break
        for t in range(t_end, w_end + 1):
            in_window[t] = True
        changed = frame != F
        if not changed:
            probes["repeat_frame"] += 1
            repeats += 1
            if M == 7:
                probes["microframe_wrap_8"] += 1
            if j == 0:
                probes["sof_equal_to_initial_frame"] += 1
        else:
            if F == 2047 and frame == 0:
                probes["wrap_2047_to_0"] += 1
            if j > 0 and ((frame - F) & 0x7FF) > 1:
                probes["skip_frames"] += 1
        outcomes.add("changed" if changed else "repeat")
        n_sof = sum(mon.sof[t_end:w_end + 1])
        n_nf = sum(mon.nf[t_end:w_end + 1])
        desc = f"SOF frame={frame} ending at cycle {t_end} (reported before: frame {F}, microframe {M}; previous packet: {pcls})"
        if n_sof != 1:
            viol.add("C21.sof_detected_per_sof", t_end, f"{n_sof} sof_detected cycles (expected 1) within {WINDOW} cycles of {desc}",
                     variant=variant, kind="missed" if n_sof == 0 else "multiple", prev=pcls)
            ok = False
            break
        if n_nf != (1 if changed else 0):
            viol.add("C21.new_frame_iff_changed", t_end, f"{n_nf} new_frame cycles (expected {1 if changed else 0}) within {WINDOW} "
                     f"cycles of {desc}", variant=variant, kind="missed" if n_nf == 0 else "unexpected", prev=pcls)
            ok = False
            break
        F, M = frame, (0 if changed else (M + 1) % 8)
        seg_start = w_end + 1
        after = f"after {desc}"
        last_cls = pcls
    if ok:
        check_hold(seg_start, n, F, M, after, last_cls)
    if ok and not viol:
        for t in range(n):
            if not in_window[t]:
                if mon.sof[t]:
                    viol.add("C21.sof_detected_per_sof", t, "sof_detected high although no well-formed SOF ended in the previous "
                             f"{WINDOW} cycles", variant=variant, kind="spurious", prev="n/a")
                    break
                if mon.nf[t]:
                    viol.add("C21.new_frame_iff_changed", t, "new_frame high although no well-formed SOF ended in the previous "
                             f"{WINDOW} cycles", variant=variant, kind="spurious", prev="n/a")
                    break

    sig = hashlib.blake2b(repr((variant, sorted(log.fsm_vectors), sorted(faults), sorted(outcomes), sorted(set(classes)))).encode(),
                          digest_size=8).hexdigest()
    nontrivial = len(sofs) >= 2 and (repeats > 0 or any(c != "sof_ok" for c in classes))
    return {"violations": viol.items, "cycles": log.cycles, "faults": faults, "probes": probes, "sig": sig,
            "nontrivial": nontrivial, "digest": log.digest, "fsm": len(log.fsm_vectors)}
